"""C07 — try / catch / throw follow block structure.

Program trees (coq/Exn.v `prog`) are executed four ways:
  impl (a)  harness/exn_interp.c   — interpreter on the real macros, nesting through C calls
  impl (b)  generated C source     — the same trees as straight-line C with LEXICAL nesting, one C
                                      function per program (+ one per PCall), compiled per batch
  model     extracted `mrun exc_max_depth clear_active_on_catch` (the machine of ExnProofs.v)
  spec      extracted `ref_run` (structured big-step semantics)
The oracle (= the property) compares impl with spec: which statements ran, which handlers ran with
which bound object, normal end with the nesting depth restored / death with failure status and the
"Uncaught" diagnostic.  The correspondence compares impl with the model: everything, including
len(current(Exception)) at every event and the message held by the exception record."""
import os, re, json, hashlib
import vlib

KINDS = ['TypeError', 'ValueError', 'KeyError', 'IOError']
NK = len(KINDS)
NV = 3            # variants per kind: object o = 10*kind + variant; same kind = `eq` but distinct objects
REPS = 'TIS'      # realisations of the objects in the harnesses (harness/exn_objs.h)

# ----------------------------------------------------------------------------- trees
# ('.',) ('t', n) (';', p, q) ('!', o, m) ('T', [o..], b, h) ('C', p)      o = 10*kind + variant
# a case line may start with the token @T / @I / @S (realisation of the objects)


def show(p):
    t = p[0]
    if t == '.': return '.'
    if t == 't': return 't%d' % p[1]
    if t == ';': return '; %s %s' % (show(p[1]), show(p[2]))
    if t == '!': return '!%d,%d' % (p[1], p[2])
    if t == 'T': return 'T%s %s %s' % ('.'.join(str(k) for k in p[1]), show(p[2]), show(p[3]))
    if t == 'C': return 'C %s' % show(p[1])
    raise ValueError(p)


def rep_of(s):
    return s[1] if s.startswith('@') else 'T'


def with_rep(rep, body):
    return body if rep == 'T' else '@%s %s' % (rep, body)


def parse(s):
    toks = [t for t in s.split() if t[0] != '@']
    pos = [0]

    def go():
        t = toks[pos[0]]; pos[0] += 1
        c, rest = t[0], t[1:]
        if c == '.': return ('.',)
        if c == 't': return ('t', int(rest))
        if c == ';':
            a = go(); b = go(); return (';', a, b)
        if c == '!':
            k, m = rest.split(','); return ('!', int(k), int(m))
        if c == 'T':
            fs = [int(x) for x in rest.split('.') if x]; b = go(); h = go(); return ('T', fs, b, h)
        if c == 'C': return ('C', go())
        raise ValueError(t)
    p = go()
    if pos[0] != len(toks): raise ValueError('trailing')
    return p


def size(p):
    t = p[0]
    if t in '.t!': return 1
    if t == ';': return 1 + size(p[1]) + size(p[2])
    if t == 'T': return 1 + size(p[2]) + size(p[3])
    return 1 + size(p[1])


def nesting(p):
    t = p[0]
    if t in '.t!': return 0
    if t == ';': return max(nesting(p[1]), nesting(p[2]))
    if t == 'T': return max(1 + nesting(p[2]), nesting(p[3]))
    return nesting(p[1])


def seq(ps):
    ps = list(ps)
    if not ps: return ('.',)
    r = ps[-1]
    for p in reversed(ps[:-1]): r = (';', p, r)
    return r


class Gen:
    """Random program trees; every tick and every throw carries a number unique in the tree, so a
    trace identifies the statements that ran and the throw whose message a handler saw."""

    def __init__(self, rng):
        self.rng = rng

    def fresh(self):
        self.ticks = 0; self.msgs = 0

    def tick(self):
        self.ticks += 1; return ('t', self.ticks)

    def throw(self, k=None):
        self.msgs += 1
        # messages of different printed lengths (m7, m23, m1234): the record's String is rewritten in place
        m = self.msgs * self.rng.choice([1, 1, 7, 101])
        return ('!', self.rng.randrange(self.nk) if k is None else k, m)

    def filt(self, hint=None):
        """a filter: kinds in random order ([] = catch everything); now and then a kind twice (a Tuple
        holding the same pointer twice never finished iterating — second repaired defect; only the
        generated-source harness passes the list as written, the interpreter uses the set)"""
        rng = self.rng
        r = rng.random()
        if r < .25: return []
        if hint is not None and r < .55: fs = [hint]
        else:
            others = [k for k in range(self.nk) if k != hint]
            if hint is not None and r < .75 and others:            # everything but the hint
                fs = rng.sample(others, rng.randrange(1, len(others) + 1))
            else:
                fs = rng.sample(range(self.nk), min(self.nk, rng.choice([1, 1, 2, 2, 3])))
        if rng.random() < .12:
            fs.insert(rng.randrange(len(fs) + 1), rng.choice(fs))
        return fs

    def tree(self, budget, hint=None):
        """general recursive generator, budget = node count"""
        rng = self.rng
        if budget <= 1:
            r = rng.random()
            if r < .45: return self.tick()
            if r < .90: return self.throw(hint if (hint is not None and rng.random() < .6) else None)
            return ('.',)
        r = rng.random()
        if r < .50 and budget >= 3:
            b = rng.randrange(1, budget - 1)
            k = rng.randrange(self.nk)
            body = self.tree(b, k)
            return ('T', self.filt(k), body, self.tree(budget - 1 - b, hint))
        if r < .85 and budget >= 3:
            a = rng.randrange(1, budget - 1)
            return (';', self.tree(a, hint), self.tree(budget - 1 - a, hint))
        if r < .93:
            return ('C', self.tree(budget - 1, hint))
        return self.tree(1, hint)

    def chain(self, n, extra):
        """n nested try blocks around a throw; filters match / do not match / are empty; handlers
        tick, throw again (same or other kind), contain a try of their own, or are followed by ticks"""
        rng = self.rng
        k = rng.randrange(self.nk)
        p = seq([self.tick(), self.throw(k)] if rng.random() < .5 else [self.throw(k)])
        for lvl in range(n):
            r = rng.random()
            if r < .45 and self.nk > 1: fs = rng.sample([x for x in range(self.nk) if x != k], rng.randrange(1, self.nk))
            elif r < .65: fs = [k]
            elif r < .80: fs = []
            else: fs = self.filt(k)
            hr = rng.random()
            if hr < .35 or extra <= 0: h = self.tick()
            elif hr < .55: h = seq([self.tick(), self.throw(rng.choice([k, None]))])
            elif hr < .75:
                h = ('T', self.filt(k), seq([self.tick(), self.throw()]), self.tick()); extra -= 3
            else:
                h = self.tree(min(extra, 5), k); extra -= 5
            p = ('T', fs, p, h)
            if rng.random() < .3: p = ('C', p)
            if rng.random() < .4: p = (';', p, self.tick())
            if rng.random() < .15: p = (';', self.tick(), p)
        return p

    def d3(self):
        """an inner block handles, the enclosing body then ends normally (or not)"""
        rng = self.rng
        k = rng.randrange(self.nk)
        inner = ('T', rng.choice([[], [k]]), self.throw(k), rng.choice([self.tick(), ('.',)]))
        mid = [inner]
        if rng.random() < .4: mid.append(self.tick())
        if rng.random() < .2: mid.insert(0, self.tick())
        if rng.random() < .15: mid.append(('T', [], self.tick(), self.tick()))
        body = seq(mid)
        if rng.random() < .3: body = ('C', body)
        outer = ('T', self.filt(k), body, self.tree(rng.choice([1, 1, 3]), k))
        if rng.random() < .5:
            outer = ('T', self.filt(k), outer, self.tick())
        return seq([outer, self.tick()])

    def objectify(self, p):
        """kinds -> objects: every throw picks one of the NV distinct-but-eq objects of its kind and,
        with the case's probability, the EMPTY format (message 0); every filter entry picks an object
        of its kind (a kind listed twice may or may not become the same object twice)"""
        rng = self.rng
        t = p[0]
        if t == '!':
            return ('!', 10 * p[1] + rng.randrange(NV), 0 if rng.random() < self.p_empty else p[2])
        if t == ';': return (';', self.objectify(p[1]), self.objectify(p[2]))
        if t == 'C': return ('C', self.objectify(p[1]))
        if t == 'T':
            return ('T', [10 * k + rng.randrange(NV) for k in p[1]], self.objectify(p[2]), self.objectify(p[3]))
        return p

    def finish(self, p):
        return with_rep(self.rng.choice('TTTIIS'), show(self.objectify(p)))

    def twins(self):
        """an object is thrown and handled, then a DIFFERENT object that is eq to it is thrown (often with
        the empty format): one after another, after an inner block handled the first, or from the
        handler that is running; the second handler must be bound to the second object"""
        rng = self.rng
        k = rng.randrange(NK)
        a, b = rng.sample(range(NV), 2)
        m1 = rng.choice([0, 0, 5, 77]); m2 = rng.choice([0, 0, 0, 9])
        first = ('T', rng.choice([[], [10 * k + rng.randrange(NV)]]), ('!', 10 * k + a, m1), rng.choice([('.',), self.tick()]))
        second = ('!', 10 * k + b, m2)
        f2 = rng.choice([[], [10 * k + rng.randrange(NV)], [10 * k + a]])
        shape = rng.randrange(4)
        if shape == 0:      # one construct after another
            mid = [self.tick()] if rng.random() < .3 else []
            if rng.random() < .2: mid.append(('T', [], ('!', 10 * ((k + 1) % NK), 3), ('.',)))    # an unequal throw in between
            p = seq([first] + mid + [('T', f2, second, self.tick())])
        elif shape == 1:    # inner block handles the first, the outer body throws its twin
            p = ('T', f2, seq([first, second]), self.tick())
        elif shape == 2:    # the running handler throws a twin of what it caught
            p = ('T', f2, ('T', first[1], first[2], seq([self.tick(), second])), self.tick())
        else:               # three in a row: a, b, a
            p = seq([first, ('T', f2, second, self.tick()), ('T', [], ('!', 10 * k + a, 0), self.tick())])
        if rng.random() < .3: p = seq([p, self.tick()])
        return with_rep(rng.choice('TIS'), show(p))

    def case(self, maxnodes, nk=None):
        rng = self.rng
        self.nk = nk or rng.choice([1, 2, 2, 4, 4, 4])       # few kinds: successive throws are often eq
        nk = self.nk
        self.p_empty = rng.choice([0, .3, .3, .7, 1])
        self.fresh()
        r = rng.random()
        if r < .12:
            return self.twins()
        if r < .40:
            p = self.tree(rng.randrange(3, maxnodes + 1))
        elif r < .60:
            n = rng.randrange(1, max(2, maxnodes // 3))
            p = self.chain(n, maxnodes - 3 * n)
        elif r < .75:
            p = self.d3()
        elif r < .90:
            # constructs one after another
            parts, left = [], maxnodes
            while left > 3:
                b = rng.randrange(3, min(left, 9) + 1)
                parts.append(self.tree(b) if rng.random() < .6 else self.d3())
                left -= b + 1
            p = seq(parts)
        else:
            # handler-centred: throws from handlers, try blocks inside handlers
            k = rng.randrange(nk)
            h = self.tree(rng.randrange(3, max(4, maxnodes - 4)), k)
            p = ('T', self.filt(k), self.throw(k), h)
            if rng.random() < .5:
                p = ('T', self.filt(), p, self.tick())
        return self.finish(p)

    def deep(self, n):
        """deep nesting (n >= 30): a throw at the bottom, mostly non-matching filters"""
        self.nk = NK
        self.fresh()
        rng = self.rng
        self.p_empty = rng.choice([0, .5])
        k = rng.randrange(NK)
        p = self.throw(k)
        stop = rng.randrange(n + 1)                   # level of the first matching filter (n = nobody)
        for lvl in range(n):
            fs = [x for x in range(NK) if x != k][:rng.randrange(1, NK)]
            if lvl == stop: fs = rng.choice([[], [k]])
            if lvl > stop and rng.random() < .3: fs = []
            h = self.tick() if rng.random() < .8 else seq([self.tick(), self.throw()])
            p = ('T', fs, p, h)
            if rng.random() < .5: p = ('C', p)
            if rng.random() < .3: p = (';', p, self.tick())
        return self.finish(p)


def enumerate_trees(maxnodes):
    """every tree with at most maxnodes nodes over the objects 0, 1 (distinct, eq to each other) and 10
    (another kind): leaves skip / tick / throw(X0, "") / throw(X1, "") / throw(X10, msg); inner nodes
    seq / try with the filters catch-all, [0], [10], [0, 10] (PCall left out: inlining).
    Ticks and messages are renumbered left to right afterwards."""
    filters = [[], [0], [10], [0, 10]]
    memo = {}

    def trees(n):
        if n in memo: return memo[n]
        out = []
        if n == 1:
            out = [('.',), ('t', 0), ('!', 0, 0), ('!', 1, 0), ('!', 10, 1)]
        else:
            for a in range(1, n - 1):
                for x in trees(a):
                    for y in trees(n - 1 - a):
                        out.append((';', x, y))
                        for f in filters:
                            out.append(('T', f, x, y))
        memo[n] = out
        return out

    def renum(p, c):
        t = p[0]
        if t == 't': c[0] += 1; return ('t', c[0])
        if t == '!':
            if p[2] == 0: return p
            c[1] += 1; return ('!', p[1], c[1])
        if t == ';': a = renum(p[1], c); b = renum(p[2], c); return (';', a, b)
        if t == 'T': a = renum(p[2], c); b = renum(p[3], c); return ('T', p[1], a, b)
        return p
    for n in range(1, maxnodes + 1):
        for p in trees(n):
            yield show(renum(p, [0, 0]))


# ----------------------------------------------------------------------------- transcripts
EV = re.compile(r'^(?:t\d+@\d+|h-?\d+,[^@ ]*@\d+|X\d+->\d+)$')


def canon(raw):
    """implementation transcript -> the driver's notation.  Events, then N@d, or the library's
    stderr text + exit status turned into D<k>,<m> / ABORT; anything unexpected is kept verbatim."""
    toks = raw.split(' ')
    ev = []
    i = 0
    while i < len(toks) and (EV.match(toks[i]) or toks[i] == ''):
        if toks[i]: ev.append(toks[i])
        i += 1
    rest = ' '.join(toks[i:]).strip()
    if re.match(r'^N@\d+$', rest):
        fin = rest
    else:
        m = re.search(r'Uncaught (\S+)\s+!!\s+!!\s+(?:m(\d+)\s+)?!!\s*\| EXIT\((\d+)\)$', rest)
        kind = diag_kind(m.group(1)) if m else None
        if m and kind is not None and rest.startswith('!!'):
            fin = 'D%d,%s' % (kind, m.group(2) or '0')
            if m.group(3) != '1': fin += ' EXIT(%s)' % m.group(3)
        elif re.match(r'^Cello Fatal Error: Exception Buffer Overflow!\s*\| CRASH\(6\)$', rest):
            fin = 'ABORT'
        else:
            fin = 'RAW[' + rest + ']'
    return ' '.join(ev + [fin])


def diag_kind(name):
    """kind of the object the Uncaught diagnostic shows (its value, not its identity)"""
    if name in KINDS: return KINDS.index(name)
    m = re.match(r'^40([4-7])$', name)
    if m: return int(m.group(1)) - 4
    m = re.match(r'^"xs([0-3])"$', name)
    if m: return int(m.group(1))
    return None


def split_tr(line):
    toks = line.split(' ')
    k = len(toks)
    for j, t in enumerate(toks):
        if not EV.match(t):
            k = j; break
    return toks[:k], ' '.join(toks[k:])


def strip_ev(e):
    """what the property speaks about: the statement that ran / the object (identity) bound in the handler"""
    if e[0] == 't': return e.split('@')[0]
    if e[0] == 'h': return 'h' + e[1:].split(',')[0]
    return e


def oracle(case, impl, spec):
    if spec == 'OUTOFSCOPE' or spec == 'BADCASE':
        return None
    ie, ifin = split_tr(impl)
    se, sfin = split_tr(spec)
    bad = [e for e in ie if e[0] == 'X']
    if bad:
        return 'nesting depth after a try/catch differs from the depth before it: %s' % bad[0]
    a, b = [strip_ev(e) for e in ie], [strip_ev(e) for e in se]
    if a != b:
        n = next((j for j in range(min(len(a), len(b))) if a[j] != b[j]), min(len(a), len(b)))
        got = a[n] if n < len(a) else 'end (' + ifin + ')'
        want = b[n] if n < len(b) else 'end (' + sfin + ')'
        return 'observation %d: program did %s, block structure demands %s' % (n, descr(got), descr(want))
    if sfin.startswith('N'):
        if not ifin.startswith('N@'):
            return 'program must end normally, but: %s' % ifin
        if ifin != 'N@0':
            return 'nesting depth at the end is %s, was 0 at the start' % ifin[2:]
    else:
        if not re.match(r'^D\d+,\d+$', ifin):
            return 'uncaught exception must end the program with failure status and the Uncaught diagnostic, but: %s' % ifin
    return None


def descr(e):
    if e[0] == 't': return 'statement ' + e[1:]
    if e[0] == 'h':
        o = e[1:]
        if o.isdigit() and int(o) // 10 < NK and int(o) % 10 < NV:
            return 'handler entered with object %s (%s, variant %d)' % (o, KINDS[int(o) // 10], int(o) % 10)
        return 'handler entered with object ' + o
    return e


def corr(case, impl, model):
    if impl == model:
        return None
    a, b = impl.split(' '), model.split(' ')
    for n, (x, y) in enumerate(zip(a, b)):
        if x != y:
            return 'observation %d: implementation %s / model %s' % (n, x, y)
    return 'length %d vs %d' % (len(a), len(b))


def nontrivial(case, impl):
    """an exception was raised and crossed at least one try block or killed the program"""
    return ' h' in (' ' + impl) or ' D' in (' ' + impl)


# ----------------------------------------------------------------------------- shrinking on trees
def subtrees_replacements(p):
    """candidate smaller trees: a subtree replaced by one of its children or by skip"""
    t = p[0]
    if t in '.t!':
        if t != '.': yield ('.',)
        return
    kids = {';': (1, 2), 'T': (2, 3), 'C': (1,)}[t]
    for i in kids:
        yield p[i]
    yield ('.',)
    if t == 'T' and len(p[1]) > 1:
        for j in range(len(p[1])):
            yield ('T', p[1][:j] + p[1][j + 1:], p[2], p[3])
    for i in kids:
        for q in subtrees_replacements(p[i]):
            yield p[:i] + (q,) + p[i + 1:]


class TreeDiff(vlib.Differential):
    def report(self, extra_search=None):
        # smallest failing programs first: they make the most readable replays
        self.oracle_fail.sort(key=lambda x: len(x[0]))
        self.corr_fail.sort(key=lambda x: len(x[0]))
        return vlib.Differential.report(self, extra_search)

    def shrink(self, case, fails):
        try:
            p = parse(case)
        except Exception:
            return case
        budget = 150
        import time
        t_end = time.time() + 15          # a broken library may hang on every candidate
        improved = True
        while improved and budget > 0 and time.time() < t_end:
            improved = False
            for q in subtrees_replacements(p):
                if size(q) >= size(p) and q != p and not (len(show(q)) < len(show(p))):
                    continue
                budget -= 1
                if budget <= 0 or time.time() > t_end: break
                if fails(show(q)):
                    p = q; improved = True
                    break
        return show(p)


# ----------------------------------------------------------------------------- lexical source
LEX_HEAD = r'''/* generated by props/C07.py: program trees as straight-line C with LEXICAL nesting */
#include "Exception.c"
#include "hcommon.h"
#include "exn_objs.h"
#define LEN len(current(Exception))
#define TICK(n) do { P("t%d@%zu ", n, LEN); fflush(OUT); } while (0)
#define DCHK(d0) do { size_t d1_ = LEN; if (d1_ != d0) { P("X%zu->%zu ", d0, d1_); fflush(OUT); } } while (0)
static void on_handler(var e) {
  struct Exception* x = current(Exception);
  P("h%d,", obj_id(e)); print_msg(c_str(x->msg)); P("@%zu ", LEN);
  fflush(OUT);
}
'''
LEX_TAIL = r'''
static void do_case(char* line) {
  int i = atoi(line);
  if (i < 0 || i >= NPROG) { P("BADCASE"); return; }
  setup_objs(reps[i]);
  fflush(OUT);
  dup2(fileno(OUT), 2);
  progs[i]();
  P("N@%zu", LEN);
}
int main(int argc, char** argv) { run_all_cases(do_case); return 0; }
'''


def lex_source(cases):
    funcs = []
    ctr = [0]

    def stmt(p, ind, name):
        t = p[0]
        pad = '  ' * ind
        if t == '.': return pad + ';\n'
        if t == 't': return pad + 'TICK(%d);\n' % p[1]
        if t == '!': return pad + 'THROW(%d, %d);\n' % (p[1], p[2])
        if t == ';': return stmt(p[1], ind, name) + stmt(p[2], ind, name)
        if t == 'C':
            ctr[0] += 1
            f = '%s_f%d' % (name, ctr[0])
            body = stmt(p[1], 1, name)
            funcs.append('static void %s(void) {\n%s}\n' % (f, body))
            return pad + '%s();\n' % f
        if t == 'T':
            ctr[0] += 1
            e = 'e%d' % ctr[0]; d = 'd%d' % ctr[0]
            flt = ''.join(', X(%d,%d)' % (k // 10, k % 10) for k in p[1])
            return (pad + '{ size_t %s = LEN;\n' % d +
                    pad + 'try {\n' + stmt(p[2], ind + 1, name) +
                    pad + '} catch (%s%s) {\n' % (e, flt) +
                    pad + '  on_handler(%s);\n' % e + stmt(p[3], ind + 1, name) +
                    pad + '}\n' + pad + 'DCHK(%s); }\n' % d)
        raise ValueError(p)
    out = [LEX_HEAD]
    names = []
    for i, c in enumerate(cases):
        name = 'prog_%d' % i
        body = stmt(parse(c), 1, name)
        out.extend(funcs); del funcs[:]
        out.append('/* %s */\nstatic void %s(void) {\n%s}\n' % (c if len(c) < 300 else c[:300] + '...', name, body))
        names.append(name)
    out.append('#define NPROG %d\nstatic void (*progs[])(void) = { %s };\nstatic const char reps[] = "%s";\n' % (
        len(names), ', '.join(names), ''.join(rep_of(c) for c in cases)))
    out.append(LEX_TAIL)
    return ''.join(out)


class Impl:
    """run_impl of both harnesses: canonical transcripts; a TIMEOUT seen with the short per-case
    watchdog is believed only after the case timed out again on its own with a long one (10 s) (a loaded
    machine must not raise an alarm); after three confirmed hangs the short watchdog is trusted"""
    confirmed = 0

    def __init__(self, ctx, exe=None):
        self.ctx, self.exe = ctx, exe
        self.n = 0
        self.compiled = 0
        self.flags = []

    def build(self, cases):
        """lexical harness: compile the batch it is handed"""
        ctx = self.ctx
        self.n += 1
        tag = 'O2' if self.flags else 'default'
        src = os.path.join(ctx.tmp, 'exn_lex_%s_%d.c' % (tag, self.n))
        with open(src, 'w') as fh:
            fh.write(lex_source(cases))
        self.compiled += len(cases)
        return ctx.build_harness(src, tag=tag, name='exn_lex_%d' % self.n, whitebox='Exception', extra=self.flags)

    def raw(self, exe, inputs, watchdog):
        env = dict(os.environ, H_TIMEOUT=str(watchdog))
        rc, lines, err = self.ctx.run_lines(exe, inputs, env=env, timeout=1200)
        return lines

    def __call__(self, cases):
        exe = self.exe or self.build(cases)
        inputs = cases if self.exe else [str(i) for i in range(len(cases))]
        lines = self.raw(exe, inputs, 1)
        lines += ['RAW[harness stopped]'] * (len(cases) - len(lines))
        for k, l in enumerate(lines):
            if l.endswith('| TIMEOUT') and Impl.confirmed < 3:
                l2 = self.raw(exe, [inputs[k]], 10)
                lines[k] = l2[0] if l2 else l
                if lines[k].endswith('| TIMEOUT'):
                    Impl.confirmed += 1
        if not self.exe:
            try:
                os.remove(exe)
            except OSError:
                pass
        out = [canon(l) for l in lines]
        st = self.ctx.cov.setdefault('outcomes', {})
        for o in out:
            ev, fin = split_tr(o)
            key = 'normal' if fin.startswith('N@') else 'died (Uncaught, exit status 1)' if re.match(r'^D\d+,\d+$', fin) \
                else 'abort (buffer overflow)' if fin == 'ABORT' else 'other'
            st[key] = st.get(key, 0) + 1
            nh = sum(1 for e in ev if e[0] == 'h')
            hk = 'handler entries: %s' % ('0' if nh == 0 else '1' if nh == 1 else '2-4' if nh <= 4 else '5+')
            st[hk] = st.get(hk, 0) + 1
            dm = max([int(e.split('@')[1]) for e in ev if '@' in e] or [0])
            dk = 'max depth seen: %s' % ('0' if dm == 0 else '1-2' if dm <= 2 else '3-9' if dm <= 9 else '10-99' if dm <= 99 else '100+')
            st[dk] = st.get(dk, 0) + 1
        return out


# ----------------------------------------------------------------------------- the check
def read_generated():
    """(exc_max_depth, clear_active_on_catch or None) as written into coq/Generated.v by this run"""
    try:
        s = open(os.path.join(vlib.COQ, 'Generated.v')).read()
    except OSError:
        s = ''
    m = re.search(r'Definition exc_max_depth : nat := (\d+)', s)
    c = re.search(r'Definition clear_active_on_catch : bool := (true|false)', s)
    return (int(m.group(1)) if m else 2048), (None if not c else c.group(1) == 'true')


def nest_case(n, inner, filt=''):
    return ' '.join(['T' + filt] * n + [inner] + ['.'] * n)


CORPUS = [
    # D3 (fixed): inner block handles, outer handler must not run / program must not die
    'T T0 !0,5 t1 t2',
    '; T10 T0 !0,5 t1 t2 t3',
    'T T !20,7 . t9',
    '; T30 ; T20 !20,1 t1 t2 t3 t4',
    # inner handled, then a fresh throw in the same outer body is still seen by the outer block
    'T10 ; T0 !0,1 t1 !10,22 t2',
    # non-matching inner filter, matching outer; nobody matches
    'T0 T10 !0,5 t1 t2',
    'T20 T10 !0,5 t1 t2',
    # throws from handlers: caught by the enclosing block, not by the own block; uncaught at top level
    'T T0 !0,1 !10,2 t3',
    'T0 !0,1 !0,2',
    'T0 T0 !0,1 !0,2 t3',
    'T T0 !0,1 T10 !10,2 ; t5 !30,404 t6',
    # try inside a handler, depth inside handler, sequences
    '; T !10,1 T10 ; t1 !10,2 t2 ; t3 T . t4',
    '; ; T !0,1 t1 T !10,2 t2 T0 !0,12345 t3',
    # a filter naming an object twice (fixed: foreach over the filter Tuple never finished); the
    # generated-source harness passes the list as written
    'T0.0 !10,1 .',
    '; T T10.0.10 !20,1 t1 t2 t3',
    'T0 T10.10 !0,3 t1 t2',
    # dynamic nesting
    'C T C !20,3 C t1',
    'T0.10 C T20.30 C !10,3 t1 t2',
    # identity of the bound object: distinct objects that are eq (same-named Types, equal Ints, equal
    # Strings, a copy), thrown with the empty format after an eq object was handled
    '; T !0,0 . T !1,0 t1',
    '@I ; T !0,0 . ; T !10,0 . ; T !1,0 . ; T !0,7 . T !2,0 t1',
    '@S T1 ; T0 !0,0 t1 !1,0 t2',
    '@I T T !0,0 ; t1 !2,0 t2',
    '@S ; T !31,5 . T30 !32,0 t1',
    'T2 ; T0 !0,3 . !1,0 !2,0',
]


def run(ctx):
    quick = ctx.tier == 'quick'
    ctx.cov['rule'] = ('program trees (skip / tick / seq / throw object,msg / try body filters handler / call) over 12 exception '
                       'objects = 4 kinds x 3 distinct objects that are `eq` to each other (realised per case as same-named Type objects '
                       'incl. the builtin TypeError/ValueError/KeyError/IOError, as heap Ints, or as heap Strings; one variant made like '
                       'copy()); throws with a message and with the EMPTY format; the harness reports the identity of the object bound in '
                       'each handler.  Seeded shapes: general recursive trees (3-25 nodes, 1/2/4 kinds in play), chains of nested try '
                       'blocks around a throw with matching / non-matching / empty filters and handlers that tick, throw again or contain a '
                       'try, "inner block handles" shapes (D3), "eq twin thrown after a handled object" shapes, sequences of constructs, '
                       'handler-centred trees; plus deep chains (30-200 levels), the nesting bound itself, a lexical-nesting batch compiled '
                       'from generated C, and (thorough) every tree up to the stated node count.  Non-trivial = an exception was raised and '
                       'entered a handler or killed the program; distinct = distinct implementation transcripts')
    ctx.assumptions += ['C text tied by correspondence only: extracted Gallina machine vs the real try/catch/throw macros and src/Exception.c of '
                        'the working tree (white-box read of e->msg); setjmp/longjmp themselves are trusted (a jump lands at the setjmp of the '
                        'buffer it names, frames in between are abandoned)',
                        'one thread; handlers and bodies do not `return`/`break` out of a try (documented misuse)',
                        'Generated.v: clear_active_on_catch, exc_max_depth, normalised token strings of the macros try/catch/catch_in/throw '
                        'and of the six C functions the machine models']
    ok = ctx.coq()
    mx, clr = read_generated()
    drv = ctx.build_driver('Exn')
    h = ctx.build_harness('exn_interp.c', whitebox='Exception')
    run_spec = lambda cs: ctx.run_lines(drv, cs, args=['spec'])[1]
    if clr is None:
        # the source no longer tells whether exception_catch clears `active` (pattern failure, already a
        # broken obligation): only the specification is compared
        run_model = None
        ctx.notes.append('clear_active_on_catch missing from Generated.v: implementation compared with the specification only')
    else:
        run_model = lambda cs: ctx.run_lines(drv, cs, args=['model1' if clr else 'model0'])[1]
    ctx.cov['machine_variant'] = {'clear_active_on_catch': clr, 'exc_max_depth': mx}
    d = TreeDiff(ctx, 'exn_interp', Impl(ctx, h), run_model, run_spec, oracle, corr, nontrivial)
    lex = Impl(ctx)
    dl = TreeDiff(ctx, 'exn_lexical', lex, run_model, run_spec, oracle, corr, nontrivial)
    g = Gen(ctx.rng)

    rp = os.environ.get('VERIF_REPLAY')
    if rp:
        r = json.load(open(rp))
        dd = dl if r.get('harness') == 'exn_lexical' else d
        dd.feed([r['case']] if 'case' in r else CORPUS)
        for x in dd.oracle_fail + dd.corr_fail:
            print('REPLAY: %s\n  impl  %s\n  model %s\n  spec  %s' % (x[4], x[1], x[2], x[3]))
        dd.report()
        return

    def feed(dd, cases, chunk):
        """in chunks; once a harness has 10 failing cases the rest of its stream is skipped (a broken
        library can make every other case hang until the watchdog)"""
        i, step = 0, min(chunk, 25)
        while i < len(cases):
            if len(dd.oracle_fail) + len(dd.corr_fail) >= 10:
                ctx.notes.append('%s: stream cut after %d cases (10 failing cases collected)' % (dd.name, dd.ncases))
                return
            dd.feed(cases[i:i + step])
            i += step
            step = min(chunk, step * 2)

    bound = [nest_case(mx, '!11,5', ''),                 # exactly the bound: in scope
             ' '.join(['T0'] * (mx - 1) + ['T10'] + ['!11,0'] + ['t1'] + ['t2'] * (mx - 1)),   # caught by the innermost of mx blocks
             nest_case(mx + 1, 't1', '')]               # one more: overflow abort (model only; spec: out of scope)
    feed(d, CORPUS, 100)
    feed(d, bound, 10)
    feed(dl, CORPUS, 100)
    hist = {}

    n = 3000 if quick else 200000
    cases = []
    for i in range(n):
        cases.append(g.case(25 if i % 4 else 9))
    ndeep = 60 if quick else 1500
    cases += [g.deep(ctx.rng.choice([30, 33, 40, 64, 100, 200])) for _ in range(ndeep)]
    feed(d, cases, 100 if quick else 5000)
    for c in cases:
        s = size(parse(c)); b = 'nodes<=8' if s <= 8 else 'nodes<=16' if s <= 16 else 'nodes<=25' if s <= 25 else 'nodes>25'
        hist[b] = hist.get(b, 0) + 1
    # lexical nesting: the same generator, compiled
    nlex = 300 if quick else 6000
    lexcases = [g.case(25 if i % 3 else 10) for i in range(nlex)] + [g.deep(30) for _ in range(3 if quick else 40)]
    feed(dl, lexcases, 101 if quick else 400)
    ctx.cov['size_histogram'] = hist
    ctx.cov['lexical_programs_compiled'] = lex.compiled
    if not quick:
        mn = int(os.environ.get('C07_EXH_NODES', '7'))
        ex = list(enumerate_trees(mn))
        feed(d, ex, 20000)
        ctx.cov['exhaustive'] = {'what': 'every tree with <= %d nodes (skip, tick, seq, try, throw of X0/X1 with the empty format and of X10 with a message; X0, X1 distinct but eq) and the filters catch-all, [X0], [X10], [X0, X10]' % mn,
                                 'trees': len(ex), 'bounded_search_only': True}

    if not quick:
        # the same library and harnesses compiled with -O2 (setjmp/longjmp under the optimiser)
        ctx.build_lib('O2', cflags=['-O2'])
        h2 = ctx.build_harness('exn_interp.c', tag='O2', whitebox='Exception', extra=['-O2'])
        d2 = TreeDiff(ctx, 'exn_interp_O2', Impl(ctx, h2), run_model, run_spec, oracle, corr, nontrivial)
        feed(d2, CORPUS + bound + [g.case(25) for _ in range(20000)] + [g.deep(64) for _ in range(100)], 5000)
        lex2 = Impl(ctx)
        lex2.flags = ['-O2']
        dl2 = TreeDiff(ctx, 'exn_lexical_O2', lex2, run_model, run_spec, oracle, corr, nontrivial)
        feed(dl2, CORPUS + [g.case(25) for _ in range(600)], 400)
        d2.report(None)
        dl2.report(None)

    def extra(dd):
        feed(dd, [g.case(12) for _ in range(10 * min(n, 3000))], 500)
    d.report(extra)
    dl.report(None)
