"""C06 — every managed object is finalised exactly once; nothing is left behind at teardown."""
import os, json, re
import vlib

HERE = os.path.dirname(os.path.abspath(__file__))
FINDINGS = os.path.join(os.path.dirname(HERE), 'findings.d', 'C06.json')


# ------------------------------------------------------------------ generator-side simulation
RULE = [None]     # the collection threshold rule of the working tree, tabulated by the model driver (set in run())


def rule(n):
    t = RULE[0]
    return t[n] if t and n < len(t) else n + n // 2 + 1


def load_rule(ctx, drv):
    """gc->mitems as a function of gc->nitems, as tools/genx_life.py read it off src/GC.c (Generated.gc_mitems_rule,
    extracted): the generator's own simulation must predict threshold collections with the rule of the tree under test"""
    try:
        out = ctx.run_lines(drv, [''], args=['rule'])[1]
        RULE[0] = [int(x) for x in out[0].split()]
        return len(RULE[0]) > 100
    except Exception:
        RULE[0] = None
        return False


class Sim:
    """What the PROGRAM may still touch (set semantics of the repaired machine): used only to keep
    generated histories well-formed (no use after delete); never part of the verdict."""

    def __init__(self):
        self.kind, self.box, self.owned = {}, {}, {}
        self.reg, self.dead, self.infin, self.pend = {}, set(), set(), set()
        self.running, self.mitems = True, 0

    def alive(self, o):
        return o in self.kind and o not in self.dead

    def owner_of(self, o):
        for b, p in self.owned.items():
            if p == o and self.alive(b):
                return b
        return None

    def finalise(self, o):
        if o in self.dead or o in self.infin:
            return
        self.infin.add(o)
        p = self.owned.get(o)
        if p is not None:
            self.gc_rem(p)
            self.owned[o] = None
        self.dead.add(o)

    def gc_rem(self, p):
        if not self.running:
            return
        if p in self.pend:
            self.pend.discard(p); self.finalise(p)
        elif p in self.reg:
            del self.reg[p]; self.finalise(p)
        self.mitems = rule(len(self.reg))

    def sweep(self, marks):
        dead = [o for o, r in self.reg.items() if not r and o not in marks]
        for o in dead:
            del self.reg[o]
        self.mitems = rule(len(self.reg))
        self.pend = set(dead)
        for o in dead:
            if o in self.pend:
                self.pend.discard(o); self.finalise(o)
        self.pend = set()

    def new(self, o, kind, box, marks):
        self.kind[o], self.box[o], self.owned[o] = kind, box, None
        if kind != 'raw' and self.running:
            self.reg[o] = (kind == 'root')
            if len(self.reg) > self.mitems:
                self.sweep(set(marks) | {o})
                return True
        return False

    def close(self, marks):
        """marks closed under ownership: a marked Box keeps what it owns"""
        marks = set(marks)
        todo = list(marks)
        # roots are traced by the real mark phase as well
        todo += [o for o, r in self.reg.items() if r]
        seen = set()
        while todo:
            b = todo.pop()
            if b in seen:
                continue
            seen.add(b)
            p = self.owned.get(b)
            if p is not None and p not in marks:
                marks.add(p)
            if p is not None:
                todo.append(p)
        # raw Boxes are not registered but their owner is the program: what they own stays
        for b, k in self.kind.items():
            if k == 'raw' and self.alive(b):
                p = self.owned.get(b)
                while p is not None and p not in marks:
                    marks.add(p); p = self.owned.get(p)
        return marks


NEWOP = {('managed', False): 'n', ('managed', True): 'b', ('root', False): 'N', ('root', True): 'B',
         ('raw', False): 'w', ('raw', True): 'W'}
DELOP = {'managed': 'd', 'root': 'D', 'raw': 'x'}


def pick_marks(rng, sim):
    regd = [o for o in sim.reg if sim.alive(o)]
    r = rng.random()
    if r < .2:
        m = set()
    elif r < .35:
        m = set(regd)
    else:
        p = rng.choice([.2, .5, .8])
        m = {o for o in regd if rng.random() < p}
    # closing over ownership twice reaches a fixpoint for chains through raw boxes too
    m = sim.close(m)
    return sim.close(m)


def gen_case(rng, maxops, natural=None, f2=False, alloc=False, win=False):
    where = rng.choice('MMTX')
    natural = (rng.random() < .25) if natural is None else natural
    mode = where + ('V' if natural else 'O') + ('R' if rng.random() < .3 else '')
    sim = Sim()
    ops, nid = [], 0
    cid = 2000               # identities of objects allocated by destructors (alloc stream)
    allocators = set()
    dropped = set()          # natural mode: references given up (and whatever they own)
    nops = rng.randrange(2, maxops)
    style = rng.choice(['boxes', 'boxes', 'mixed', 'cycles', 'plain'])
    pbox = {'boxes': .6, 'mixed': .35, 'cycles': .7, 'plain': .1}[style]

    def touchable(o):
        return sim.alive(o) and o not in dropped

    def drop(o):
        seen = set()
        while o is not None and o not in seen:
            seen.add(o); dropped.add(o); o = sim.owned.get(o)

    for _ in range(nops):
        objs = [o for o in sim.kind if touchable(o)]
        r = rng.random()
        stopped = not sim.running
        if r < .38 or not objs:
            nid += 1
            kind = rng.choice(['managed'] * 7 + ['root'] * 2 + ['raw'] * 2)
            if stopped and not f2:
                kind = 'raw'
            box = rng.random() < pbox
            # `~`: the destructor opens a stop/start window of its own (critical section) before anything else
            tilde = '~' if win and rng.random() < .3 else ''
            tok = NEWOP[(kind, box)] + str(nid) + tilde
            if alloc and kind != 'root' and rng.random() < .45:
                # a destructor that allocates 1-3 managed objects nobody refers to
                box = False
                nch = rng.choice([1, 1, 2, 2, 3])
                tok = ('a' if kind == 'managed' else 'q') + str(nid) + tilde + ''.join('+%d' % (cid + i) for i in range(nch))
                cid += nch
                allocators.add(nid)
            marks = set()
            if not natural and kind != 'raw':
                marks = sim.close({o for o in sim.reg if sim.alive(o)}) if alloc else pick_marks(rng, sim)
                if marks:
                    tok += ':' + ','.join(map(str, sorted(marks)))
            if natural:
                # the real mark phase sees the stack array: everything not dropped stays
                marks = {o for o in sim.reg if o not in dropped}
                marks = sim.close(marks)
                # dropped objects MAY go: treat them as gone for the program (already untouchable)
            if kind == 'managed' and not box and '+' not in tok and objs and rng.random() < .15:
                # the same through copy(): alloc + assign of a live probe
                tok = 'k%d,%d' % (nid, rng.choice(objs)) + (tok[tok.index(':'):] if ':' in tok else '')
            swept = sim.new(nid, kind, box, marks)
            ops.append(tok)
        elif r < .55:
            boxes = [o for o in objs if sim.box[o]]
            if not boxes:
                continue
            b = rng.choice(boxes)
            if rng.random() < .08:
                sim.owned[b] = None; ops.append('l%d,-' % b); continue
            cands = [o for o in objs if sim.kind[o] != 'raw' and sim.owner_of(o) in (None, b)
                     and (sim.kind[o] == 'raw' or o in sim.reg or f2)]
            if style != 'cycles':
                # no ownership cycles outside the dedicated style (self-ownership included there)
                def reaches(x, tgt):
                    seen = set()
                    while x is not None and x not in seen:
                        if x == tgt:
                            return True
                        seen.add(x); x = sim.owned.get(x)
                    return False
                cands = [o for o in cands if not reaches(o, b)]
            if not cands:
                continue
            o = rng.choice(cands)
            sim.owned[b] = o
            ops.append('l%d,%d' % (b, o))
        elif r < .68:
            cands = [o for o in objs if sim.owner_of(o) is None]
            if stopped and not f2:
                cands = [o for o in cands if sim.kind[o] == 'raw' and sim.owned.get(o) is None]
            if not cands:
                continue
            o = rng.choice(cands)
            k = sim.kind[o]
            tok = DELOP[k] + str(o)
            if alloc and not natural:
                # the destructor may allocate and so trigger a threshold collection: keep everything
                keep = sim.close({x for x in sim.reg if sim.alive(x) and x != o})
                if keep:
                    tok += ':' + ','.join(map(str, sorted(keep)))
            ops.append(tok)
            if k == 'raw':
                sim.finalise(o)
            elif sim.running:
                sim.gc_rem(o)
            else:
                dropped.add(o)           # F2 stream: the program believes it is gone
        elif r < .85:
            if natural:
                if objs and rng.random() < .6:
                    o = rng.choice(objs)
                    if sim.owner_of(o) is None and sim.kind[o] == 'managed':
                        drop(o); ops.append('u%d' % o)
                marks = sim.close({o for o in sim.reg if o not in dropped})
                ops.append('c')
                # dropped objects may or may not have been collected: they stay untouchable
            else:
                marks = pick_marks(rng, sim)
                ops.append('c' + ','.join(map(str, sorted(marks))))
                sim.sweep(marks)
        elif r < .92:
            if sim.running:
                ops.append('s'); sim.running = False
            else:
                ops.append('S'); sim.running = True
        else:
            if natural and objs:
                o = rng.choice(objs)
                if sim.owner_of(o) is None and sim.kind[o] == 'managed':
                    drop(o); ops.append('u%d' % o)
    if not sim.running and rng.random() < .7:
        ops.append('S')
    if rng.random() < .85:
        ops.append('t')
    return mode + '|' + ' '.join(ops)


def enumerate_small(maxlen, where='M'):
    """every well-formed history of at most maxlen operations over three objects (a managed Box 1,
    a managed plain object 2, a root Box 3): allocations with the threshold marks `all` or `none`,
    all ownership links among them (self-ownership and cycles included), del/del_root, collections
    with the marks {}, {1}, {2} (closed under ownership), a stop/start window, each followed by teardown"""
    import copy
    out = []
    NEW = {1: ('managed', True, 'b1'), 2: ('managed', False, 'n2'), 3: ('root', True, 'B3')}

    def moves(sim):
        live = [o for o in (1, 2, 3) if sim.alive(o)]
        stopped = not sim.running
        for o in (1, 2, 3):
            if o not in sim.kind and not stopped:
                for mk in ('all', 'none'):
                    marks = sim.close({x for x in sim.reg if sim.alive(x)}) if mk == 'all' else sim.close(set())
                    yield ('new', o, marks)
        for b in live:
            if sim.box[b]:
                for o in live:
                    if sim.owner_of(o) in (None, b) and o in sim.reg and sim.owned.get(b) != o:
                        yield ('link', b, o)
        if not stopped:
            for o in live:
                if sim.owner_of(o) is None:
                    yield ('del', o, None)
        for m in (set(), {1}, {2}):
            if all(x in sim.reg and sim.alive(x) for x in m):
                yield ('collect', None, sim.close(m))
        yield ('toggle', None, None)

    def rec(sim, toks, stops):
        out.append(where + 'O|' + ' '.join(toks + ['t']))
        if len(toks) >= maxlen:
            return
        for kind, a, b in moves(sim):
            s2 = copy.deepcopy(sim)
            if kind == 'new':
                k, box, tok = NEW[a]
                s2.new(a, k, box, b)
                t = tok + (':' + ','.join(map(str, sorted(b))) if b else '')
            elif kind == 'link':
                s2.owned[a] = b; t = 'l%d,%d' % (a, b)
            elif kind == 'del':
                t = ('D' if s2.kind[a] == 'root' else 'd') + str(a); s2.gc_rem(a)
            elif kind == 'collect':
                t = 'c' + ','.join(map(str, sorted(b))); s2.sweep(b)
            else:
                if stops >= 2:
                    continue
                t = 's' if s2.running else 'S'; s2.running = not s2.running
            rec(s2, toks + [t], stops + (kind == 'toggle'))

    rec(Sim(), [], 0)
    return out


# ------------------------------------------------------------------ transcripts
def split_trailer(line):
    if ' ## ' in line:
        body, tr = line.split(' ## ', 1)
        m = dict(re.findall(r'(\w+)=(\d+)', tr))
        rest = tr.split(' | ', 1)
        marker = (' | ' + rest[1]) if len(rest) > 1 else ''
        return body + marker, {k: int(v) for k, v in m.items()}
    return line, {}


def steps(line):
    body, _ = split_trailer(line)
    return body.split(' | ') if body else []


def model_ops(case):
    mode, ops = case.split('|', 1)
    return mode, [t for t in ops.split(' ') if t]


def augment(case, impl):
    """hand the slot order and marks the library showed before each sweep to the model"""
    mode, toks = model_ops(case)
    st = steps(impl)
    out, k = [], 0
    for t in toks:
        if t[0] == 'u':
            out.append(t); continue
        if k < len(st) and st[k].startswith('C'):
            out.append(t + '@' + st[k].split(';', 1)[0][1:])
        else:
            out.append(t)
        k += 1
    return mode + '|' + ' '.join(out)


def norm_impl_step(s):
    f = s.split(';')
    if f and f[0].startswith('C'):
        f[0] = 'C'
    return ';'.join(f)


def ledger(step):
    f = step.split(';')
    if len(f) < 2:
        return None
    d = {}
    for it in f[1].split(','):
        if it:
            a = it.split(':')
            if len(a) != 3:
                return None
            try:
                d[int(a[0])] = (int(a[1]), int(a[2]))
            except ValueError:
                return None             # a transcript cut short by a crash in the middle of a step
    return d


BADCASES = []      # cases the harness refused: generator/shrinker errors, never violations


def oracle(case, impl, spec):
    if 'BADCASE' in impl:
        BADCASES.append(case)
        return None
    if ';BAD' in spec:
        return None                      # not a well-formed history (use after delete, …)
    mcr = re.search(r'\| (CRASH\(\d+\)|TIMEOUT|EXIT\(\d+\))\s*$', impl)
    if mcr:
        return ('the library did not survive this well-formed history: %s '
                '(a destructor run twice or memory released twice is the usual cause)' % mcr.group(1))
    evtoks = [t for t in model_ops(case)[1] if t[0] != 'u']
    nev = len(evtoks)
    si, ss = steps(impl), spec.split(' ;;')[0].split(' | ') if nev else []
    owned, running, prev = {}, True, {}
    for n, st in enumerate(si):
        if n >= len(ss):
            return 'step %d: %s' % (n, st[:80])
        led = ledger(st)
        if led is None:
            return 'step %d: %s' % (n, st[:80])
        for o, (fi, fr) in sorted(led.items()):
            if fi > 1:
                return 'step %d: object %d finalised %d times' % (n, o, fi)
            if fr != fi:
                return 'step %d: object %d finalised %d times but released %d times' % (n, o, fi, fr)
        must_s, _, kept_s = ss[n].partition('/')
        for o in [int(x) for x in must_s.split(',') if x]:
            if led.get(o, (0, 0))[0] != 1:
                return 'step %d: object %d must have been finalised by now (deleted, owned by a deleted Box, or teardown) but its destructor ran %d times' % (n, o, led.get(o, (0, 0))[0])
        # roots belong to the program: only del_root (or the Box they were given to) may finalise them —
        # no collection and no teardown (thread exit, program exit)
        for o in [int(x) for x in kept_s.split(',') if x]:
            if led.get(o, (0, 0))[0] != 0:
                return ('step %d (%s): root object %d was finalised by the collector — it was allocated with new_root, never passed to '
                        'del_root and never given to a Box' % (n, evtoks[n], o))
        # through an owning Box: when the destructor of a Box has run while the collector is running, the
        # object the Box owned has been finalised too (Box_Del issues del on it)
        tok = evtoks[n] if n < len(evtoks) else ''
        if running:
            for b, o in owned.items():
                if o is not None and prev.get(b, (0, 0))[0] == 0 and led.get(b, (0, 0))[0] == 1 and led.get(o, (0, 0))[0] != 1:
                    return ('step %d (%s): the destructor of Box %d ran with the collector running, but the object %d it owned was not '
                            'finalised (its destructor ran %d times)' % (n, tok, b, o, led.get(o, (0, 0))[0]))
        if tok[:1] == 'l':
            b, _, o = tok[1:].split('@')[0].partition(',')
            owned[int(b)] = None if o == '-' else int(o)
        elif tok[:1] == 's':
            running = False
        elif tok[:1] == 'S':
            running = True
        for b in list(owned):
            if led.get(b, (0, 0))[0] >= 1:
                owned[b] = None          # Box_Del cleared its pointer
        prev = led
    if len(si) != len(ss):
        return 'implementation transcript has %d steps, the history %d' % (len(si), len(ss))
    # objects allocated by destructors are managed objects like any other: whatever exists before
    # teardown must have been finalised by it
    toks = [t for t in model_ops(case)[1] if t[0] != 'u']
    if has_alloc(case) and toks and toks[-1][0] == 't' and len(si) >= 2:
        ch = children(case)
        before, after = ledger(si[-2]), ledger(si[-1])
        late = []
        for c in sorted(ch):
            if c in before and after.get(c, (0, 0))[0] != 1:
                return 'step %d: object %d (allocated by a destructor before teardown) was never finalised' % (len(si) - 1, c)
            if c not in before and c in after and after[c][0] != 1:
                late.append(c)
        if late:
            return 'F8: object %d was allocated by a destructor running during teardown and is left behind' % late[0]
    return None


def has_alloc(case):
    return '+' in case


def children(case):
    out = set()
    for t in model_ops(case)[1]:
        if '+' in t:
            out |= {int(x) for x in re.findall(r'\+(\d+)', t.split(':')[0].split('@')[0])}
    return out


# ------------------------------------------------------------------ program-exit histories
ROUTES = {'r': 'return from main', 'e': 'exit(0) from a nested call', 'w': 'exit(0) inside a with-block inside a try-block',
          't': 'uncaught throw (Exception_Error exits)', 's': 'exit(3) from a deep call, no other thread',
          'j': 'exit(0) after a worker Thread has come and gone',
          'T': 'exception_signals(); raise(SIGTERM) outside any try (uncaught signal exception)',
          'I': 'exception_signals(); raise(SIGINT) outside any try (uncaught signal exception)',
          'F': 'exception_signals(); raise(SIGFPE) outside any try (uncaught signal exception)',
          'a': 'a signal exception (SIGINT) caught in a try-block, then normal return from main',
          'b': 'a signal exception caught in a try-block, later an ordinary uncaught throw',
          'c': 'a signal exception caught in a try-block, later exit(0) from a nested call'}
SIGNAL_ROUTES = 'TIFabc'


def gen_exit_objs(rng):
    n = rng.randrange(1, 9)
    toks, used_f = [], False
    for i in range(1, n + 1):
        k = rng.choice('ppoocrghf')
        if k == 'f':
            if used_f:
                k = 'p'
            else:
                used_f = True
                toks.append('f'); continue
        toks.append('%s%d' % (k, i))
    return ' '.join(toks)


def exit_model_case(route, objs):
    """the same history for the model / specification drivers (owners get identities of their own;
    everything the program holds is reachable, so threshold collections mark everything)"""
    toks, regd = [], []

    def new(tok, ident):
        toks.append(tok + str(ident) + ((':' + ','.join(map(str, regd))) if regd else ''))
        regd.append(ident)
    have_arr = False
    for t in objs.split():
        k, ident = t[0], int(t[1:] or 0)
        if k == 'p':
            new('n', ident)
        elif k == 'r':
            new('N', ident)
        elif k == 'f':
            new('n', 900)
        elif k == 'h':
            new('N', ident); new('b', ident + 500); toks.append('l%d,%d' % (ident + 500, ident))
        elif k in 'ogc':
            owner = ident + {'o': 600, 'g': 500, 'c': 700}[k]
            if k == 'c' and not have_arr:
                have_arr = True
                new('n', 950)
            new('n', ident); new('b', owner); toks.append('l%d,%d' % (owner, ident))
    return 'MO|' + ' '.join(toks + ['T' + route])


def check_exit_case(ctx, exe, drv, route, objs):
    """-> (why or None, record)"""
    rc, out, err = vlib.sh([exe, route, objs], timeout=30)
    line = out.strip().split('\n')[-1] if out.strip() else ''
    rec = {'harness': 'lifecycle_exit', 'case': '%s|%s' % (route, objs), 'route': ROUTES.get(route, route),
           'impl': line, 'exit_status': rc}
    f = line.split(';')
    if len(f) != 5:
        mc = exit_model_case(route, objs)
        rec.update(model_case=mc, model=ctx.run_lines(drv, [mc], args=['model'])[1][0].split(' | ')[-1],
                   spec=ctx.run_lines(drv, [mc], args=['spec'])[1][0].split(' | ')[-1])
        return ('the teardown did not run: the program ended through "%s" (status %s) without running its exit handlers '
                '(no ledger was written; _Exit/abort instead of exit?), so none of its managed objects was finalised'
                % (ROUTES.get(route, route), rc)), rec
    led = {int(a): int(b) for a, b in (x.split(':') for x in f[0].split(',') if x)}
    mc = exit_model_case(route, objs)
    model = ctx.run_lines(drv, [mc], args=['model'])[1][0]
    spec = ctx.run_lines(drv, [mc], args=['spec'])[1][0]
    rec.update(model_case=mc, model=model.split(' | ')[-1], spec=spec.split(' | ')[-1])
    if f[4] != '1':
        return 'the history did not reach its termination route', rec
    if f[3] != 'B0':
        return 'a destructor ran on a block that is not a live probe (%s)' % f[3], rec
    must_s, _, kept_s = spec.split(' | ')[-1].split(';')[0].partition('/')
    must = {int(x) for x in must_s.split(',') if x}
    kept = {int(x) for x in kept_s.split(',') if x}
    for o, n in sorted(led.items()):
        if n > 1:
            return 'object %d finalised %d times at program exit (%s)' % (o, n, ROUTES[route]), rec
        if o in must and n != 1:
            return ('object %d is a managed object that is alive when the program ends through "%s": it must be finalised by the '
                    'teardown of the collector, but its destructor ran %d times' % (o, ROUTES[route], n)), rec
    for o in sorted(kept):
        if led.get(o, 0) != 0:
            return ('root object %d was finalised by the collector when the program ended through "%s": it was allocated with '
                    'new_root, never passed to del_root and never given to a Box' % (o, ROUTES[route])), rec
    # through an owning Box: owners that were finalised at teardown have deleted what they owned
    for t in objs.split():
        if t[0] in 'gh':
            o, b = int(t[1:]), int(t[1:]) + 500
            if led.get(b, 0) == 1 and led.get(o, 0) != 1:
                return ('the destructor of Box %d ran at program exit (%s) but the %s %d it owned was not finalised (its destructor ran %d times)'
                        % (b, ROUTES[route], 'root' if t[0] == 'h' else 'object', o, led.get(o, 0))), rec
    if 'f' in objs.split() and f[1] != 'F1':
        return 'the managed File was closed %s times at program exit (%s)' % (f[1][1:], ROUTES[route]), rec
    a, b = f[2][1:].split('/')
    if a != b:
        return 'worker thread: %s of %s managed objects finalised at thread exit' % (a, b), rec
    # correspondence with the machine (terminate with the switches read off the wrapper)
    ml = ledger(model.split(' | ')[-1])
    if ml is not None:
        for o, n in sorted(led.items()):
            if o in ml and ml[o][0] != n:
                rec['correspondence'] = 'object %d: program %d, machine %d' % (o, n, ml[o][0])
                return None, rec
    return None, rec


def run_exit_routes(ctx, drv, volume, only=None):
    exe = ctx.build_harness('lifecycle_exit.c', name='lifecycle_exit', extra=['-Wl,--wrap=fclose'])
    # the routes through Exception_Error after a signal first (they are the ones a changed
    # Exception_Error / Exception_Signal breaks), then the others
    order = list(SIGNAL_ROUTES) + [r for r in ROUTES if r not in SIGNAL_ROUTES]
    cases = ([(r, 'p1') for r in order] + [(r, x) for r in 'rej' for x in ('r1', 'h1', 'g1')] +
             [(r, 'p1 o2 c3 c4 r5 f g6 p7 h8') for r in order])
    cases += [(ctx.rng.choice(list(ROUTES)), gen_exit_objs(ctx.rng)) for _ in range(volume)]
    if only:
        cases = [only]
    nviol, first_corr, hist = 0, None, {}
    for route, objs in cases:
        why, rec = check_exit_case(ctx, exe, drv, route, objs)
        ctx.count_case('exit\0' + rec['case'] + rec['impl'], True)
        hist[route] = hist.get(route, 0) + 1
        if why and nviol < 3:
            ctx.violation('exit_route_%d' % nviol, dict(rec, kind='implementation contradicts the specification (property fails on a concrete input)',
                                                         why=why))
            nviol += 1
        elif rec.get('correspondence') and first_corr is None:
            first_corr = rec
        if len(ctx.cov['samples']) < 6 and route in 'et':
            ctx.sample(rec)
    if first_corr is not None and not nviol:
        ctx.violation('exit_route_correspondence', dict(first_corr, kind='correspondence between model and implementation no longer checks',
                                                         theorem_or_file='correspondence lifecycle_exit (terminate vs the real main wrapper)',
                                                         why=first_corr['correspondence']), no_failing_input=True)
    ctx.cov['exit_routes'] = {'cases': len(cases), 'by_route': hist,
                              'what': 'one process per history, built with the main wrapper macro of the working tree; ledger read at exit'}


def corr(case, impl, model):
    if 'BADCASE' in impl or 'BADCASE' in model:
        return None                      # counted in oracle(); a refused case is not an observation
    if ';BAD' in model:
        return None
    if has_alloc(case) and 'R' in case.split('|', 1)[0]:
        # really freed memory + allocations made during a sweep: a dead Box may `del` the stale
        # address of an object freed earlier in the same sweep, and that address may by now belong
        # to an object a destructor has just allocated (finalised early, still exactly once).  The
        # model has no addresses; these cases are judged by the oracle only.
        return None
    a = [norm_impl_step(x) for x in steps(impl)]
    nev = len([t for t in model_ops(case)[1] if t[0] != 'u'])
    b = model.split(' | ') if nev else []
    for n, (x, y) in enumerate(zip(a, b)):
        if x != y:
            return 'step %d: implementation %s / model %s' % (n, x, y)
    if len(a) != len(b):
        return 'length %d vs %d' % (len(a), len(b))
    return None


def nontrivial(case, impl):
    _, tr = split_trailer(impl)
    return tr.get('ph', 0) + tr.get('th', 0) + tr.get('win', 0) > 0     # win: a destructor's stop/start window inside a running sweep


def in_stop_window(case):
    """input predicate of finding F2: a `del` issued while the collector is stopped (by the program,
    or by the destructor of a Box), or a managed/root allocation made while it is stopped"""
    _, toks = model_ops(case)
    stopped = False
    rawbox, roots = set(), False
    for t in toks:
        c = t[0]
        if c in 'Wq':
            rawbox.add(re.match(r'\d+', t[1:]).group(0))
        if c in 'NB':
            roots = True
        if c == 's':
            stopped = True
        elif c == 'S':
            stopped = False
        elif stopped and c in 'nbNBdDak':
            return True
        elif stopped and c == 'x' and re.match(r'\d+', t[1:]).group(0) in rawbox:
            return True       # a raw Box issues `del` on what it owns
        elif stopped and c in 'xct' and '+' in case:
            return True       # a destructor may allocate while the collector is stopped
        elif stopped and c == 't' and roots:
            return True       # a swept Box issues `del` on a root it owns
    return False


def classify(case, impl, why):
    if why.startswith('F8:'):
        return 'alloc-in-destructor-at-teardown'
    return 'del-while-gc-stopped' if in_stop_window(case) else None


def split(case):
    mode, ops = case.split('|', 1)
    return mode, [t for t in ops.split(' ') if t]


def join(mode, toks):
    return mode + '|' + ' '.join(toks)


# D18: a swept Box whose object sits later in the pending list (which one comes first depends on
# the addresses: twelve pairs, and both threads of control)
PAIRS = ' '.join('b%d n%d l%d,%d' % (2 * i + 1, 2 * i + 2, 2 * i + 1, 2 * i + 2) for i in range(12))
CORPUS = [
    'TO|b15 n16 l15,16 t', 'MO|b15 n16 l15,16 n22 t', 'XOR|b19 n20 b21 n22 b23 n24 l23,24 t',   # D18, shrunk witnesses (Box first in slot order)
    'MO|' + PAIRS + ' c t',
    'TO|' + PAIRS + ' c t',
    'XOR|' + PAIRS + ' t',
    'MO|b1 l1,1 c t',                               # a Box that owns itself (re-entrant rem of the object being finalised)
    'TO|b1 b2 l1,2 l2,1 c t',                       # two Boxes owning each other
    'MO|b1 b2:1 b3:1,2 n4:1,2,3 l1,2 l2,3 l3,4 d1 t',           # explicit del runs down a chain of Boxes
    'MO|B1 n2 l1,2 c D1 t',                         # root Box: survives collections, del_root finalises both
    'MO|W1 n2 l1,2 c2 x1 t',                        # raw Box owning a managed object
    'MV|n1 n2 n3 u1 c t',
    'MO|n1 s w2 x2 S t',                            # a clean stop window
]
# destructors that open a stop/start window of their own, called from a sweep's finaliser loop (C06-r7-2):
# several unreachable objects in one sweep, some bracketing; explicit collection, threshold collection, teardown
CORPUS += ['MO|n1~ n2 c t', 'MO|n1 n2~ c t', 'MO|n1~:1 n2~:1 n3:1,2 n4~:1,2,3 n5:1,2,3,4 n6~:1,2,3,4,5 c t',
           'TO|n1~ n2 n3~ n4 t', 'XO|n1~ n2 n3~ n4 t', 'MO|n1~ n2~ n3 n4 n5 n6 n7 n8 t',
           'MO|b1~ n2:1 l1,2 n3:1,2 n4~:1,2,3 c t', 'MO|b1~ n2:1 l1,2 d1 t', 'MO|W1~ n2 l1,2 n3:2 x1 t',
           'MO|a1~+2000+2001 n2:1 n3~:1,2 c t', 'MOR|a1~+2000 a2~+2001+2002 n3 t',
           'MO|n1~ s c S n2 t']
# D22: destructors that allocate, nested collection inside the sweep
CORPUS += ['MO|a1+2000+2001 a3+2002+2003:1 t', 'MVR|a1+2000 a2+2001+2002 t', 'MOR|w1 a2+2000+2001+2002 a3+2003:2 t',
           'MO|a1+101+102:1 a2+103+104:1 a3+105+106:1,2 a4+107+108:1,2,3 a5+109+110:1,2,3,4 a6+111+112:1,2,3,4,5 c6 d6 c t']
F2_WITNESS = 'MO|s n1 d1 S t'


MY_PARAMS = {'gc_rem_pending_finalises', 'gc_sweep_nulls_first', 'gc_set_defers_in_sweep', 'gc_mitems_rule', 'gc_life_shape',
             'main_registers_atexit', 'main_tears_down_after_return', 'exception_error_exits', 'genx_life'}


def check_glue(ctx):
    """coq/Properties_C06_glue.v: the abstract registry is a sound abstraction of C17's concrete one.  These are
    statements about C17's MODEL, which is parameterised by what C17's translator (tools/genx_gcreg.py) reads off
    src/GC.c.  When that translator cannot read the tree, C17's model does not exist for it (C17's own check reports
    that); the life-cycle theorems and the correspondence of C06 do not depend on it, so this is a note, not an alarm.
    Any other failure of the glue file is a broken obligation of C06."""
    pf = 'Properties_C06_glue.v'
    src = open(os.path.join(vlib.COQ, pf)).read()
    thms = re.findall(r'^\s*Theorem\s+([A-Za-z0-9_\']+)', src, re.M)
    foreign = [g.split()[1] for g in getattr(ctx, 'gen_status', []) if g.startswith('FAIL') and len(g.split()) > 1
               and g.split()[1] not in MY_PARAMS]
    import fcntl
    with open(os.path.join(vlib.COQ, '.lock'), 'w') as lk:
        fcntl.flock(lk, fcntl.LOCK_EX)
        deps = vlib.coq_deps(pf)
        rc, o, e = vlib.sh(['make', '-C', vlib.COQ, '-j%d' % vlib.NCPU] + deps, timeout=3000)
        fcntl.flock(lk, fcntl.LOCK_UN)
    if rc == 0:
        out = os.path.join(ctx.tmp, 'glue_out'); os.makedirs(out, exist_ok=True)
        import shutil
        shutil.copy(os.path.join(vlib.COQ, pf), os.path.join(out, pf))
        rc, o, e = vlib.sh(['coqc', '-Q', vlib.COQ, 'CelloV', '-Q', out, 'CelloVTmp', os.path.join(out, pf)], timeout=3000)
    if rc == 0:
        closed = o.count('Closed under the global context')
        ctx.cov['obligations'] += len(thms)
        ctx.cov['discharged'] += len(thms) if not getattr(ctx, 'proof_broken', None) else 0
        ctx.cov['trusted_base'] += ['theorem %s (Properties_C06_glue.v): %s' % (t, 'closed under the global context (no axioms)'
                                                                                if closed >= len(thms) else 'see coqc output') for t in thms]
        ctx.cov['checker_cmd'] += ' && coqc -Q coq CelloV coq/%s' % pf
        if closed < len(thms) and not getattr(ctx, 'proof_broken', None):
            ctx.proof_broken = 'Properties_C06_glue.v: Print Assumptions does not report every theorem closed: ' + o[-600:]
        return
    if foreign:
        ctx.notes.append('glue to C17 (Properties_C06_glue.v, %d theorems) NOT re-checked on this tree: C17\'s model cannot be '
                         'regenerated (patterns of other translators that no longer match: %s); C06\'s own theorems and '
                         'correspondence do not depend on it' % (len(thms), ', '.join(foreign[:6])))
        ctx.cov['glue_to_C17'] = 'not re-checked: C17 model not regenerable (%s)' % ', '.join(foreign[:6])
        return
    ctx.cov['obligations'] += len(thms)
    if not getattr(ctx, 'proof_broken', None):
        m = re.search(r'File "([^"]+)", line (\d+)', o + e)
        ctx.proof_broken = 'Properties_C06_glue.v or its dependencies do not compile (%s): %s' % (
            (m.group(1) + ':' + m.group(2)) if m else '?', (o + e)[-1200:])


def run(ctx):
    quick = ctx.tier == 'quick'
    ctx.cov['rule'] = (
        'seeded histories of new/new_root/new_raw (plain probes and Box-like probes whose destructor is the real Box_Del), '
        'ownership links (chains, shared nothing, cycles and self-ownership in a dedicated style), del/del_root/del_raw, forced '
        'collections and threshold collections inside new, stop/start windows and teardown, in the main thread (Cello_Exit called, '
        'or exit() with atexit as the main macro registers it) and in a worker Thread; marks of every collection either scripted '
        '(closed under ownership, newborn marked) or left to the real mark phase over a stack array of references; probe memory '
        'quarantined or really freed.  The slot order the sweep meets (hence the pending-list order: owner before or after the owned '
        'object) comes from the real addresses and is handed to the model.  A case is non-trivial when at least one destructor-issued '
        'del hit the pending list of a running sweep or an entry still in the table (counted inside the probe destructor, white-box); '
        'distinct = distinct implementation transcripts')
    ctx.assumptions += [
        'C text tied by correspondence only: extracted Gallina machine vs library built from the working tree; ledger (destructor and '
        'release counts per object), registered set with root flags, nitems, mitems and the running flag compared after every operation',
        'registry order abstract in the model (C17 covers the slot array); the order observed before each sweep is an input of the model, '
        'and the theorems quantify over every order and every set of marks',
        'destructors that allocate are in the model (ESpawn/alloc_child); with really freed memory such cases are judged by the '
        'oracle only (a stale address may be reused within one sweep); objects allocated by destructors during teardown: open finding F8']
    # findings of this property as recorded in the fragment (known_findings.json is assembled from it)
    mine = json.load(open(FINDINGS)) if os.path.exists(FINDINGS) else []
    ctx.findings = [f for f in ctx.findings if f.get('property') != 'C06'] + mine
    ok = ctx.coq()
    check_glue(ctx)
    drv = ctx.build_driver('Lifecycle')
    if not load_rule(ctx, drv):
        ctx.notes.append('collection threshold rule could not be tabulated: generator simulates the pinned rule')
    else:
        ctx.notes.append('collection threshold rule of the tree: mitems(0..5) = %s' % RULE[0][:6])
    h = ctx.build_harness('lifecycle.c', whitebox='GC')
    rc, pl, _ = ctx.run_lines(drv, [''], args=['params'])
    ctx.notes.append('model switches read off the C text: ' + (pl[0] if pl else '?'))
    cache = {}

    def run_impl(cs):
        out = ctx.run_lines(h, cs, timeout=1200)[1]
        for c, l in zip(cs, out):
            cache[c] = l
        return out

    def impl_of(cs):
        miss = [c for c in cs if c not in cache]
        if miss:
            run_impl(miss)
        return [cache[c] for c in cs]

    def run_model(cs):
        il = impl_of(cs)
        return ctx.run_lines(drv, [augment(c, i) for c, i in zip(cs, il)], args=['model'])[1]

    def run_spec(cs):
        sl = ctx.run_lines(drv, cs, args=['spec'])[1]
        ml = run_model(cs)
        return [s + (' ;;BAD(model)' if ';BAD' in m else '') for c, s, m in zip(cs, sl, ml)]

    class Diff(vlib.Differential):
        """shrinking must stay outside the open findings: a candidate counts as failing only when
        its failure is not one of the known signatures"""
        def _fails_oracle(self, case):
            i = self.run_impl([case]); sp = self.run_spec([case])
            nb = len(BADCASES)
            why = oracle(case, i[0], sp[0]) if i and sp else None
            del BADCASES[nb:]            # a candidate the shrinker made up is not a generated history
            return bool(why) and classify(case, i[0], why) is None

        def _fails_corr(self, case):
            i = self.run_impl([case]); m = self.run_model([case])
            return bool(i and m and corr(case, i[0], m[0]))

    d = Diff(ctx, 'lifecycle', run_impl, run_model, run_spec, oracle, corr, nontrivial, split, join, classify)
    rp = os.environ.get('VERIF_REPLAY')
    if rp and json.load(open(rp)).get('harness') == 'lifecycle_exit':
        r = json.load(open(rp))
        route, objs = r['case'].split('|', 1)
        run_exit_routes(ctx, drv, 0, only=(route, objs))
        for path, _ in ctx.violations:
            v = json.load(open(path)); print('REPLAY: %s\n  program %s\n  machine %s\n  spec    %s' % (v.get('why'), v.get('impl'), v.get('model'), v.get('spec')))
        return
    if rp:
        r = json.load(open(rp))
        d.feed([r['case']] if 'case' in r else CORPUS)
        for x in d.oracle_fail + d.corr_fail:
            print('REPLAY: %s\n  impl  %s\n  model %s\n  spec  %s' % (x[4], x[1], x[2], x[3]))
        d.report()
        return
    d.feed(CORPUS, 'corpus')
    # program-exit histories (every run; ten times the volume when a proof obligation is broken,
    # e.g. when the main wrapper no longer registers the teardown for every route)
    broken = bool(getattr(ctx, 'proof_broken', None))
    run_exit_routes(ctx, drv, (12 if quick else 200) * (10 if broken else 1))

    # open finding F2: the recorded witness must still fail, and is reported as known
    for f in mine:
        if f.get('status') == 'open':
            il = run_impl([f['witness']]); sl = ctx.run_lines(drv, [f['witness']], args=['spec'])[1]
            why = oracle(f['witness'], il[0], sl[0])
            ctx.cov['evaluations'] += 1
            if why and classify(f['witness'], il[0], why) == f.get('signature'):
                ctx.known(f)
                ctx.notes.append('open finding, witness %s: %s' % (f['witness'], why))
            elif why:
                d.oracle_fail.append((f['witness'], il[0], None, sl[0], why))
            else:
                ctx.notes.append('witness %s of open finding %s no longer fails: the finding may have been repaired' % (f['witness'], f.get('signature')))

    n = 4000 if quick else 100000
    maxops = 70 if quick else 110
    cases = []
    for i in range(n):
        if i % 10 == 9:
            cases.append(gen_case(ctx.rng, 14))
        else:
            cases.append(gen_case(ctx.rng, maxops))
    # bounded search (never the claim): every well-formed history up to a small length over three objects
    small = enumerate_small(4 if quick else 6, 'M') + (enumerate_small(5, 'T') if not quick else [])
    ctx.cov['exhaustive'] = {'what': 'all well-formed histories of <= %d operations (+ teardown) over a managed Box, a managed plain object and a root Box'
                             % (4 if quick else 6), 'cases': len(small)}
    cases += small
    # a thin stream inside the F2 signature: other violations there would be masked, so keep it small
    cases += [gen_case(ctx.rng, 20, natural=False, f2=True) for _ in range(20 if quick else 500)]
    # destructors that allocate (modelled; correspondence except with really freed memory)
    cases += [gen_case(ctx.rng, 40, alloc=True) for _ in range(800 if quick else 10000)]
    # destructors that bracket with stop/start (plain, Boxes = with a deletion, allocating ones), reached by
    # threshold sweeps, explicit collections, deletes and teardown
    cases += [gen_case(ctx.rng, 40, win=True, alloc=(i % 3 == 2)) for i in range(600 if quick else 10000)]
    hist = {}
    for c in cases:
        for t in model_ops(c)[1]:
            hist[t[0]] = hist.get(t[0], 0) + 1
        hist['mode:' + c.split('|')[0]] = hist.get('mode:' + c.split('|')[0], 0) + 1
    ctx.cov['op_histogram'] = hist
    for i in range(0, len(cases), 2000):
        d.feed(cases[i:i + 2000])
        cache.clear()
    ctx.cov['sizes'] = {'cases': len(cases), 'max_ops': maxops}

    def extra(dd):
        dd.feed([gen_case(ctx.rng, 40) for _ in range(10 * min(n, 3000))])
    # shortest failing histories first: they shrink fastest and read best
    # cases the harness refused (it will not touch an object that is already finalised): the history
    # was not well-formed for THIS tree — an error of the generator's own simulation, reported as such
    ctx.cov['refused_cases'] = {'count': len(BADCASES), 'samples': BADCASES[:3],
                                'meaning': 'histories the harness refused (BADCASE): generator errors, not observations'}
    if BADCASES:
        ctx.notes.append('generator error: %d generated histories were refused by the harness (first: %s)' % (len(BADCASES), BADCASES[0][:200]))
    d.oracle_fail.sort(key=lambda x: len(x[0]))
    d.corr_fail.sort(key=lambda x: len(x[0]))
    d.report(extra)
