"""C13 — threads are isolated; join publishes; Mutex excludes.

Coq: Properties_C13.v (interleaving machine of coq/Threads.v, every schedule).
Correspondence: harness/threads.c runs every generated multi-thread program on the real library
(all worker programs alone first, then all together under kernel scheduling with injected
yields) next to the extracted machine (model: under a generated schedule; spec: every thread on
its own).  The oracle demands only what the property text states:
  * no crash / hang / process exit,
  * every worker's result trace when running with the others = its trace when running alone,
  * no probe object finalised by a thread that did not allocate it,
  * sections guarded by one Mutex never overlap; the non-atomic counters lose no update,
  * what the joiner reads right after join is the joined thread's complete trace.
Everything else (exception/TLS/collector events equal to the model's) is correspondence."""
import os, json, re
import vlib

NEXN = 6
NKEYS = 6


# ------------------------------------------------------------------ generator
class Gen:
    def __init__(self, rng, nmutex, heavy, safe=False):
        self.rng, self.nmutex, self.heavy, self.safe = rng, nmutex, heavy, safe

    def local_op(self, allowed, depth, held):
        """one thread-local instruction (list of tokens); allowed = set of exception ids that may
        escape here or 'all'; held = sorted list of mutexes currently held"""
        r = self.rng
        x = r.random()
        can0 = allowed == 'all' or 0 in allowed
        if x < .08: return ['a%d' % r.randrange(2)]
        if x < .10: return [r.choice(['h%d' % r.randrange(4), 'h%d' % r.randrange(4), 'p0', 'p0', 'p1'])]
        if x < .14: return ['u%d' % r.randrange(4)]
        if x < .20: return ['c']
        if x < .30: return ['s%d,%d' % (r.randrange(NKEYS), r.randrange(100))]
        if x < .38:
            k = r.randrange(NKEYS)
            return ['g%d' % k] if can0 else ['[', 'g%d' % k, ']0', '}']
        if x < .43: return ['m%d' % r.randrange(NKEYS)]
        if x < .48:
            k = r.randrange(NKEYS)
            return ['r%d' % k] if can0 else ['[', 'r%d' % k, ']0', 'e%d' % r.randrange(50), '}']
        if x < .56: return ['e%d' % r.randrange(1000)]
        if x < .62: return ['o']
        if x < .66: return ['y']
        if x < .74:
            kind = r.choice([0, 1, 2, 3, 3, 4, 5, 6, 6, 7])
            n = r.choice([3, 10, 30, 60]) if not self.heavy else r.choice([10, 60, 200, 400])
            if kind == 7:      # n forced collections
                n = r.choice([3, 10, 30]) if not self.heavy else r.choice([30, 100, 300])
            return ['w%d,%d' % (kind, n)]
        if x < .80:
            if allowed == 'all': return ['t%d' % r.randrange(NEXN)]
            if allowed: return ['t%d' % r.choice(sorted(allowed))]
            return ['e%d' % r.randrange(1000)]
        if depth < 3:
            return self.try_block(allowed, depth, held)
        return ['o']

    def try_block(self, allowed, depth, held):
        r = self.rng
        x = r.random()
        if x < .45: cs = []
        elif x < .8: cs = [r.randrange(NEXN)]
        else: cs = r.sample(range(NEXN), 2)
        inner = 'all' if not cs else ('all' if allowed == 'all' else set(allowed) | set(cs))
        body = self.block(r.randrange(0, 5), inner, depth + 1, held, throwy=True)
        handler = self.block(r.randrange(0, 3), allowed, depth + 1, held)
        if any(t[0] == '[' or t.startswith('w4') for t in body) and (self.safe or r.random() < .9):
            # before repair D3 a handled exception leaves `active` set and the enclosing try would fire
            # again on the stale object when its body ends normally (C07's business): an empty try resets it
            body += ['[', ']', '}']
        return ['['] + body + [']' + ','.join(map(str, cs))] + handler + ['}']

    def sync_op(self, depth, held):
        """a critical section on a mutex larger than every mutex held (lock order = no deadlock);
        nothing may escape a section (the mutex would stay locked)"""
        r = self.rng
        lo = (held[-1] + 1) if held else 0
        if lo >= self.nmutex:
            return []
        m = r.randrange(lo, self.nmutex)
        body = []
        for _ in range(r.randrange(1, 4)):
            y = r.random()
            if y < .55: body += ['i%d' % r.choice(held + [m])]
            elif y < .7 and depth < 3: body += self.sync_op(depth + 1, held + [m])
            elif y < .8: body += ['y']
            else: body += self.local_op(set(), depth + 1, held + [m])
        style = r.random()
        if style < .15:
            # try once: skipped when the mutex is busy — the body may only touch the counters
            return ['Q%d(' % m] + [r.choice(['i%d' % m, 'i%d' % m, 'y']) for _ in range(r.randrange(1, 4))] + [')']
        if style < .43: return ['L%d' % m] + body + ['U%d' % m]
        if style < .67: return ['T%d' % m] + body + ['U%d' % m]
        return ['W%d(' % m] + body + [')']

    def block(self, n, allowed, depth, held, throwy=False, sync=.18):
        r = self.rng
        toks = []
        for _ in range(n):
            if r.random() < sync and depth < 3:
                toks += self.sync_op(depth, held)
            else:
                toks += self.local_op(allowed, depth, held)
        if throwy and r.random() < .5:
            toks += self.local_op(allowed, 3, held) if r.random() < .3 else \
                (['t%d' % r.randrange(NEXN)] if allowed == 'all' else (['t%d' % r.choice(sorted(allowed))] if allowed else []))
        return toks


def gen_case(rng, nworkers=None, size=None, heavy=False, safe=False, reuse=False, clones=False):
    nworkers = nworkers or rng.choice([1, 2, 2, 3, 3, 4, 5, 7, 8, 12, 15, 16])
    nmutex = rng.choice([1, 1, 2, 3, 4])
    size = size or rng.choice([4, 8, 14, 22])
    g = Gen(rng, nmutex, heavy, safe)
    progs = []
    # spawn tree: every worker is created (and joined, and read) by main or by a worker with a smaller number
    parent = {u: (0 if u == 1 or rng.random() < .75 else rng.randrange(1, u)) for u in range(1, nworkers + 1)}
    kids = {t: [u for u in parent if parent[u] == t] for t in range(0, nworkers + 1)}
    # Thread-object reuse: some workers are called again (2-4 runs: call, join, read, call again ...) by their creator
    # (only leaves of the spawn tree: the harness and the stand-alone oracle count the calls of a Thread object statically)
    runs = {u: (rng.choice([2, 2, 3, 4]) if not kids[u] and rng.random() < (.5 if reuse else .12) else 1) for u in parent}

    # copies of Thread objects (leaves, one run): a worker clones ITSELF inside a try block (copy(current(Thread)), the copy
    # inherits a snapshot of its TLS and must get its own exception context); main copies a finished, joined child
    clone = {}
    for u in parent:
        if kids[u] or runs[u] > 1 or rng.random() >= (.6 if clones else .1):
            continue
        if parent[u] != 0:
            clone[u] = parent[u]
        else:
            sibs = [w for w in kids[0] if w < u and w not in clone]
            if sibs:
                clone[u] = rng.choice(sibs)

    def again(u):
        out = []
        for _ in range(runs[u] - 1):
            out.append('S%d' % u)
            if rng.random() < .3: out.append(rng.choice(['y', 'e%d' % rng.randrange(100), 'o']))
            out += ['J%d' % u, 'P%d' % u]
        return out
    # main: spawn its children (own work in between), then join in some order, peek after join
    main = []
    for u in kids[0]:
        if u in clone: continue
        main.append('S%d' % u)
        if rng.random() < .3: main += g.block(1, set(), 0, [])
    main += g.block(rng.randrange(0, max(2, size // 2)), set(), 0, [])
    order = [u for u in kids[0] if u not in clone]; rng.shuffle(order)
    pending = []
    for u in order:
        main.append('J%d' % u)
        if rng.random() < .7 or runs[u] > 1: main.append('P%d' % u)
        else: pending.append(u)
        main += again(u)
        if rng.random() < .2: main += g.block(1, set(), 0, [])
    for u in pending: main.append('P%d' % u)
    for u in kids[0]:
        if u in clone:      # the source has been joined above
            main += ['K%d,%d' % (u, clone[u])] + (g.block(1, set(), 0, []) if rng.random() < .4 else []) + ['J%d' % u, 'P%d' % u]
    progs.append(main)
    shape = rng.choice(['mixed', 'mixed', 'same', 'contend'])
    same = g.block(size, set(), 0, []) if shape == 'same' else None
    for u in range(1, nworkers + 1):
        if shape == 'same': p = list(same)
        elif shape == 'contend':
            p = []
            for _ in range(max(2, size // 2)):
                p += g.sync_op(0, []) or ['y']
                if rng.random() < .4: p += g.local_op(set(), 1, [])
        else: p = g.block(rng.randrange(1, size + 1), set(), 0, [])
        if kids[u]:
            # a worker that creates threads: S / J / P only between top-level statements, outside lock..unlock
            stmts = top_statements(' '.join(p))
            free, held = [0], 0
            for n, st in enumerate(stmts):
                if st[0] in 'LT' and st[1:].isdigit(): held += 1
                elif st[0] == 'U': held -= 1
                if held == 0: free.append(n + 1)
            ins = {}
            for k in kids[u]:
                a = rng.choice(free); b = rng.choice([x for x in free if x >= a])
                ins.setdefault(a, []).append(('S*[ K%d,%d %s ] }' % (k, u, rng.choice(['y', 'o', 's%d,%d' % (rng.randrange(NKEYS), rng.randrange(100))])))
                                             if k in clone else 'S%d' % k)
                ins.setdefault(b, []).append('~J%d' % k + (' P%d' % k if rng.random() < .8 or runs[k] > 1 else '')
                                             + ''.join(' ' + x for x in again(k)))
            out = []
            for n in range(len(stmts) + 1):
                todo = ins.get(n, [])
                out += [(x[2:] if x.startswith('S*') else x) for x in todo if x[0] == 'S'] + [x[1:] for x in todo if x[0] == '~']
                if n < len(stmts): out.append(stmts[n])
            p = ' '.join(out).split()
        if runs[u] > 1:
            # a run takes a moment and ends with an observable result: a join that does not wait is seen
            p = p + ['z%d' % rng.choice([2, 3, 5]), 'e%d' % rng.randrange(1000)]
        progs.append(p)
    total = sum(len(p) for p in progs) * 3 + 10
    sched = [rng.randrange(0, nworkers + 1) for _ in range(min(total, 400))]
    # g = the Thread objects are new(Thread, ..): owned by the main thread's collector and reachable from its stack
    return '%d%s|%s|%s' % (nmutex, 'g' if rng.random() < .5 else '', ','.join(map(str, sched)), '|'.join(' '.join(p) for p in progs))


# ------------------------------------------------------------------ transcripts
def parse_sections(line):
    """model/spec line -> (dict tid -> [events], cells, seen, flags)"""
    parts = line.split(' # ')
    if len(parts) != 4:
        return None
    traces = {}
    for t in parts[0].split(' / '):
        m = re.match(r't(\d+):(.*)$', t)
        if not m:
            return None
        traces[int(m.group(1))] = m.group(2).split(',') if m.group(2) else []
    return traces, parts[1].strip(), parts[2].strip(), parts[3].strip()


def parse_impl(line):
    """-> dict(alone, conc, cells, seen, flags, x) or {'bad': reason}"""
    if line.startswith('INVALID'):
        return {'invalid': True}
    m = re.match(r'A: (.*) ## C: (.*) ## X: (.*)$', line)
    if not m:
        tail = re.search(r'(CRASH\(\d+\)|TIMEOUT|EXIT\(\d+\))\s*$', line)
        return {'bad': tail.group(1) if tail else 'malformed transcript'}
    if re.search(r'(CRASH\(\d+\)|TIMEOUT|EXIT\(\d+\))\s*$', line):
        return {'bad': re.search(r'(CRASH\(\d+\)|TIMEOUT|EXIT\(\d+\))\s*$', line).group(1)}
    alone = parse_sections(m.group(1) + ' #  #  # ok') if m.group(1).strip() else ({}, '', '', 'ok')
    conc = parse_sections(m.group(2))
    if not alone or not conc:
        return {'bad': 'malformed transcript'}
    x = dict(kv.split('=') for kv in m.group(3).split())
    return {'alone': alone[0], 'conc': conc[0], 'cells': conc[1], 'seen': conc[2], 'flags': conc[3],
            'x': {k: v for k, v in x.items()}}


def fin_set(ev):
    body = ev[2:-1]
    return set(body.split('+')) if body else set()


def canon(events, digests=True):
    """trace with the collector events canonicalised: an `f` keeps only its position, the `x`
    carries everything finalised by the thread over its whole life (conservative stack
    scanning may postpone a finalisation, never lose it)"""
    out, cum = [], set()
    for e in events:
        if e.startswith('f{'):
            cum |= fin_set(e); out.append('f')
        elif e.startswith('x{'):
            cum |= fin_set(e); out.append('x{' + '+'.join(sorted(cum, key=lambda s: (len(s), s))) + '}')
        elif e.startswith('w') and not digests:
            out.append(e.split('=')[0])
        else:
            out.append(e)
    return out


def canon_text(text, digests=True):
    return ','.join(canon(text.split(',') if text else [], digests))


def first_diff(a, b):
    for n, (x, y) in enumerate(zip(a, b)):
        if x != y:
            return 'event %d: %s / %s' % (n, x, y)
    return 'length %d / %d' % (len(a), len(b))


def spawned(case):
    """threads that are started: main, and every thread some started thread creates (top-level S<u>)"""
    progs = case.split('|')[2:]
    live, todo = {0}, [0]
    while todo:
        t = todo.pop()
        if t >= len(progs):
            continue
        for tok in progs[t].split():
            u = tok[1:] if tok[0] == 'S' else (tok[1:].split(',')[0] if tok[0] == 'K' else '')
            if u.isdigit() and int(u) not in live:
                live.add(int(u)); todo.append(int(u))
    return live


def copies(case):
    """threads whose Thread object is a copy (K<v>,<u>): they start with the source's TLS snapshot, so they have no
    stand-alone run in the harness; their traces are judged against the specification's stand-alone run"""
    return {int(t[1:].split(',')[0]) for p in case.split('|')[2:] for t in p.split() if t[0] == 'K' and t[1:].split(',')[0].isdigit()}


def joined_peeks(case):
    """per thread t: for every P<u> of its program (in order): the number r of the run of Thread object u it
    must see completely (t called u r times and joined it r times before the read), or 0 when the read is
    not preceded by a join of the latest call (then it promises nothing)"""
    res = {}
    for t, prog in enumerate(case.split('|')[2:]):
        out, calls, joins = [], {}, {}
        for tok in prog.split():
            u = tok[1:].split(',')[0] if tok[0] == 'K' else tok[1:]
            if tok[0] in 'SK' and u.isdigit(): calls[u] = calls.get(u, 0) + 1
            elif tok[0] == 'J' and u.isdigit() and calls.get(u, 0) > joins.get(u, 0): joins[u] = calls[u]
            elif tok[0] == 'P' and u.isdigit():
                out.append(calls.get(u, 0) if calls.get(u, 0) and joins.get(u, 0) == calls.get(u, 0) else 0)
        res[t] = out
    return res


def through_run(events, r):
    """the thread's trace up to the end of its r-th run (the r-th x{..} event)"""
    n = 0
    for i, e in enumerate(events):
        if e.startswith('x{'):
            n += 1
            if n == r:
                return events[:i + 1]
    return None


def seen_by_thread(text):
    """'t:P<u>=[..];..' -> dict t -> [(u, trace text)] in the order the thread read them"""
    res = {}
    for item in (text.split(';') if text else []):
        m = re.match(r'(\d+):P(\d+)=\[(.*)\]$', item)
        if not m:
            return None
        res.setdefault(int(m.group(1)), []).append((int(m.group(2)), m.group(3)))
    return res


def oracle(case, impl, spec):
    p = parse_impl(impl)
    if 'invalid' in p:
        return None        # out of contract (aborts / deadlocks / leaves a mutex held in the machine): not judged
    live = spawned(case)
    if 'bad' in p:
        return 'the run did not complete: %s' % p['bad']
    for t, tr in sorted(p['conc'].items()):
        for e in tr:
            if (e.startswith('f{') or e.startswith('x{')) and '!' in e:
                return 'thread %d finalised an object of another thread: %s' % (t, e)
    if int(p['x'].get('cross', 0)):
        return 'a probe object was finalised by a thread that did not allocate it (cross=%s)' % p['x']['cross']
    for k, what in (('startctx', 'a thread did not start with its own fresh exception context (depth 0, inactive)'),
                    ('ctxshared', 'two running threads share one Exception object / one collector'),
                    ('pubdead', 'a result the thread published with new_root / new_raw was finalised or unreadable when the joiner read it after join')):
        if int(p['x'].get(k, 0)):
            return '%s (%s=%s)' % (what, k, p['x'][k])
    cl = copies(case)
    sp = parse_sections(spec) if spec else None
    for t in sorted(cl & live):
        # a copy of a Thread: snapshot of the source's TLS at the copy, private afterwards, everything else its own
        if sp and t in sp[0] and t in p['conc']:
            a, c = canon(sp[0][t], digests=False), canon(p['conc'][t], digests=False)
            if a != c:
                return 'thread %d (a copy of a Thread object) computes a different trace than on its own with the copied TLS snapshot: %s' % (t, first_diff(c, a))
    for t, tr in sorted(p['alone'].items()):
        a, c = canon(tr), canon(p['conc'].get(t, []))
        if t == 0 or t not in live or t in cl:
            continue
        if a != c:
            return 'thread %d computes a different trace with the others than alone: %s' % (t, first_diff(c, a))
    if int(p['x'].get('tsover', 0)):
        return ('critical sections of one Mutex overlapped in time: %s pair(s) of sections with intersecting [entered, about to leave] '
                'intervals (monotonic timestamps taken inside the sections)' % p['x']['tsover'])
    if int(p['x'].get('overlap', 0)):
        return 'critical sections of one Mutex overlapped (%s times)' % p['x']['overlap']
    if p['x'].get('lost', '0') != '0':
        return 'counter guarded by a Mutex lost updates: %s' % p['x']['lost']
    # join publishes: what the joiner read = the complete trace of the joined thread
    if p['seen']:
        ok_peeks = joined_peeks(case)
        seen = seen_by_thread(p['seen'])
        if seen is None:
            return 'malformed peek section ' + p['seen'][:200]
        for t, items in sorted(seen.items()):
            for n, (u, text) in enumerate(items):
                if t not in live or n >= len(ok_peeks.get(t, [])) or not ok_peeks[t][n]:
                    continue       # a read without a preceding join promises nothing
                got = text.split(',') if text else []
                want = through_run(p['conc'].get(u, []), ok_peeks[t][n])
                if want is None or got != want:
                    return 'after join(%d) of its call no. %d thread %d read an incomplete trace: %s' % (
                        u, ok_peeks[t][n], t, first_diff(got, want or p['conc'].get(u, [])))
    return None


def corr(case, impl, model):
    p = parse_impl(impl)
    if 'bad' in p or 'invalid' in p:
        return None        # the oracle reports it / out of contract
    ms = parse_sections(model)
    if not ms:
        return 'model transcript malformed: ' + model[:200]
    mtr, mcells, mseen, mflags = ms
    if mflags != 'ok':
        return 'model flags %s (generator should have filtered this case)' % mflags
    live = spawned(case)
    for t in sorted(mtr):
        want = canon(mtr[t], digests=False)
        for name, got in (('together', p['conc'].get(t)), ('alone', p['alone'].get(t))):
            if name == 'alone' and (t not in live or not p['alone'] or t in copies(case)):
                continue      # never started / case flag n: no stand-alone phase
            if got is None:
                if name == 'alone' and t == 0:
                    continue
                return 'thread %d missing in the %s part' % (t, name)
            g = canon(got, digests=False)
            if t == 0:   # the main thread's collector is not torn down inside the case
                g = [e for e in g if not e.startswith('x{')]; w = [e for e in want if not e.startswith('x{')]
            else:
                w = want
            if g != w:
                return 'thread %d (%s): implementation/model %s' % (t, name, first_diff(g, w))
            # safety of each collection: nothing finalised that the model still holds rooted
            ci, cm = set(), set()
            mf = [e for e in mtr[t] if e[:2] in ('f{', 'x{')]
            gf = [e for e in got if e[:2] in ('f{', 'x{')]
            for a, b in zip(gf, mf):
                ci |= fin_set(a); cm |= fin_set(b)
                if not ci <= cm:
                    return 'thread %d (%s): finalised %s while the model keeps it (rooted)' % (t, name, sorted(ci - cm))
    if p['cells'] != mcells and 'Q' not in case:      # a try-once section may be skipped: its counter is schedule dependent
        return 'counters %s, model %s' % (p['cells'], mcells)
    okp = joined_peeks(case)

    def keep(text):
        sb = seen_by_thread(text) or {}
        return {t: [(u, canon_text(x, digests=False)) for n, (u, x) in enumerate(items)
                    if n < len(okp.get(t, [])) and okp[t][n]] for t, items in sb.items() if t in live}
    if keep(p['seen']) != keep(mseen):
        return 'peeks differ: %s / %s' % (p['seen'][:200], mseen[:200])
    for k in ('double', 'unfin', 'rootkill', 'stale'):
        if int(p['x'].get(k, 0)):
            return 'ledger: %s=%s' % (k, p['x'][k])
    return None


def canon_seen(s):
    out = []
    for item in (s.split(';') if s else []):
        m = re.match(r'(\d+):P(\d+)=\[(.*)\]$', item)
        out.append((m.group(1), m.group(2), canon_text(m.group(3), digests=False)) if m else item)
    return out


def nontrivial(case, impl):
    m = re.search(r'maxpar=(\d+)', impl)
    return bool(m) and int(m.group(1)) >= 2


SHARED_SIG = 'managed-object-owned-by-one-thread-mutated-by-another-while-the-owner-collects'
SHARED_WITNESS = '1s|0|S1 S2 w7,3000 J1 J2|w8,400|w8,400'


def classify(case, impl, why):
    """open finding: case flag s = the shared Array of work kind 8 is owned by the main thread's collector"""
    if 's' in case.split('|')[0] and 'w8,' in case:
        return SHARED_SIG
    return None


def known_finding_probe(ctx, run_impl):
    """runs the witness of the open finding (up to 3 times: it is a race) and prints KNOWN-FINDING when it
    reproduces; the generators never produce flag s, so nothing else is excused by it"""
    fs = [f for f in ctx.findings if f.get('property') == 'C13' and f.get('signature') == SHARED_SIG]
    if not fs:
        mine = os.path.join(vlib.VERIF, 'findings.d', 'C13.json')
        fs = [f for f in json.load(open(mine)) if f.get('signature') == SHARED_SIG] if os.path.exists(mine) else []
    if not fs or fs[0].get('status') != 'open':
        return
    for attempt in range(3):
        out = run_impl([SHARED_WITNESS])
        ctx.cov['evaluations'] += 1
        if out and 'bad' in parse_impl(out[0]):
            ctx.known(fs[0])
            ctx.cov['open_finding_probe'] = 'reproduced at attempt %d: %s' % (attempt + 1, parse_impl(out[0])['bad'])
            return
    ctx.cov['open_finding_probe'] = 'witness of the open finding did not fail in 3 runs (race not hit, or repaired)'
    ctx.notes.append('open finding %s: witness did not reproduce in this run' % SHARED_SIG)


def top_statements(prog):
    """a program's top-level statements (balanced bracket groups stay together)"""
    out, cur, depth = [], [], 0
    for t in prog.split():
        cur.append(t)
        if t[0] == '[' or t[0] == 'W' or t[0] == 'Q':
            depth += 1
        elif t == '}' or t == ')':
            depth -= 1
        if depth == 0:
            out.append(' '.join(cur)); cur = []
    if cur:
        out.append(' '.join(cur))
    return out


def split(case):
    """shrinking unit = one top-level statement of one thread (an unspawned thread simply never runs)"""
    f = case.split('|')
    toks = []
    for t, prog in enumerate(f[2:]):
        if 'n' in f[0]:      # long-hold scenario (every run takes seconds): shrink by whole threads only
            toks += ['%d:%s' % (t, prog)] if prog.strip() else []
            continue
        toks += ['%d:%s' % (t, st) for st in top_statements(prog)]
    return (f[0], f[1], len(f) - 2), toks


def join(pre, toks):
    nm, sched, n = pre
    progs = [[] for _ in range(n)]
    for tk in toks:
        t, st = tk.split(':', 1)
        progs[int(t)].append(st)
    return '%s|%s|%s' % (nm, sched, '|'.join(' '.join(p) for p in progs))


def signal_case(rng):
    """exception_signals() (case flag x: installed before anything runs), then main and 1-4 workers each turn signals raised in
    their own thread (x<k>: SIGFPE, SIGSEGV, SIGTERM, SIGINT, SIGILL, SIGABRT by raise()) into exceptions inside their own
    try/catch.  In contract on the pinned tree: a thread takes a signal of one kind at most once (the handler is left by longjmp,
    the signal stays blocked in THAT thread) and nobody creates a thread after taking one (a new thread inherits the mask)."""
    nw = rng.choice([1, 2, 2, 3, 4])

    def prog(nsig):
        kinds = rng.sample(range(6), nsig)
        out = []
        for k in kinds:
            pre = rng.choice([[], ['o'], ['e%d' % rng.randrange(100)], ['s%d,%d' % (rng.randrange(NKEYS), rng.randrange(50))]])
            shape = rng.random()
            if shape < .4: st = ['[', 'x%d' % k, 'e%d' % rng.randrange(100), ']%d' % (6 + k), 'e%d' % rng.randrange(100), '}']
            elif shape < .7: st = ['[', 'x%d' % k, ']', 'o', '}']
            else: st = ['[', '[', 'x%d' % k, ']%d' % (6 + (k + 1) % 6), 'e1', '}', ']%d,%d' % (6 + k, rng.randrange(6)), 'e%d' % rng.randrange(100), '}']
            out += pre + st
            if rng.random() < .3: out += ['y']
        return out + ['o']
    main = ['S%d' % u for u in range(1, nw + 1)] + prog(rng.choice([0, 1, 2]))
    for u in rng.sample(range(1, nw + 1), nw): main += ['J%d' % u, 'P%d' % u]
    same = rng.random() < .5
    k0 = rng.choice([1, 2, 2, 3])
    p0 = prog(k0)
    progs = [main] + [(list(p0) if same else prog(rng.choice([1, 2, 2, 3]))) for _ in range(nw)]
    return '1x|0|' + '|'.join(' '.join(p) for p in progs)


def foreign_del_case(rng):
    """threads call del() on objects that belong to ANOTHER thread's collector (published with new_root / new_raw, or managed and
    rooted on the owner's stack) while the owner keeps using them; the owner releases its results itself after the joins"""
    nw = rng.choice([1, 2, 3, 4])
    npub = rng.choice([1, 2, 3])
    main = []
    for i in range(npub): main.append(rng.choice(['p0', 'p0', 'p1']))
    main += ['a1', 'a1']
    main += ['S%d' % u for u in range(1, nw + 1)]
    main += rng.choice([['w0,30'], ['w3,60', 'c'], ['c', 'w1,30', 'c'], ['o']])
    for u in range(1, nw + 1): main += ['J%d' % u]
    main += ['o'] + ['D%d' % i for i in range(npub)] + ['c', 'o']
    progs = [main]
    for u in range(1, nw + 1):
        p = []
        for _ in range(rng.randrange(2, 7)):
            owner = 0 if rng.random() < .7 or u == 1 else rng.randrange(1, u)
            p.append('d%d,%d' % (owner, rng.choice(list(range(npub)) + [100, 101])))
            if rng.random() < .5: p.append(rng.choice(['y', 'e%d' % rng.randrange(100), 'z2', 'a0', 'c']))
        if rng.random() < .6: p = ['p%d' % rng.randrange(2)] + p      # something of its own a sibling may try to delete
        progs.append(p + ['e%d' % rng.randrange(1000)])
    return '1|0|' + '|'.join(' '.join(p) for p in progs)


def long_hold_case(ms, variant=0):
    """one thread keeps mutex 0 for ms milliseconds while three others wait for it: by lock(), by a with-block and by
    lock() after a failed trylock().  Flag n: no stand-alone phase.  Judged by the overlap counters and by the
    order of the timestamps taken inside the sections — never by a wall-clock threshold."""
    holder = ('L0 z%d i0 U0 e1' if variant == 0 else 'W0( z%d i0 ) e1') % ms
    waiters = ['z150 L0 i0 U0 e2', 'z150 W0( i0 ) e3', 'z150 B0 i0 U0 e4']
    if variant:
        waiters = ['z150 B0 i0 U0 L0 i0 U0 e2', 'z150 L0 i0 U0 W0( i0 ) e3', 'z150 W0( i0 ) B0 i0 U0 e4']
    return '1n|0|S1 S2 S3 S4 J1 J2 J3 J4 P1|%s|%s' % (holder, '|'.join(waiters))


BENIGN_RACE_SITES = ('Type_Instance', 'Type_Scan', 'Type_Of')


def tsan_pass(ctx, cases, run_model, run_spec):
    """ThreadSanitizer build of library + harness: the same oracle on the slowed-down runs, and the data
    races it reports inside the library as OBSERVATIONS (evidence), classified by the innermost library frame.
    The lazily filled type-method cache slots and class pointers of the static type objects (Type_Instance,
    Type_Scan, Type_Of) are written with the same value by every thread: expected, benign in practice."""
    import collections
    try:
        ctx.build_lib('tsan', cflags=['-fsanitize=thread', '-O1'])
        ht = ctx.build_harness('threads.c', tag='tsan', extra=['-fsanitize=thread'])
    except Exception as e:
        ctx.notes.append('ThreadSanitizer build not available: %r' % e)
        return
    env = dict(os.environ, H_TIMEOUT='120', TSAN_OPTIONS='halt_on_error=0 exitcode=0 report_signal_unsafe=0')
    errs = []

    def run_impl(cs):
        rc, out, err = ctx.run_lines(ht, cs, env=env, timeout=6000)
        errs.append(err)
        return out
    d = vlib.Differential(ctx, 'threads_tsan', run_impl, run_model, run_spec, oracle, corr, nontrivial)
    for i in range(0, len(cases), 50):
        d.feed(cases[i:i + 50])
    sites = collections.Counter()
    srcs = set(os.listdir(os.path.join(vlib.REPO, 'src')))
    for rep in ''.join(errs).split('=================='):
        if 'ThreadSanitizer: data race' not in rep:
            continue
        # innermost frame of each of the two conflicting accesses (a lost stack has none)
        fr = re.findall(r'(?:[Rr]ead|[Ww]rite) of size \d+ at \S+ by [^\n]*:\n\s+#0 (\S+) (\S+?):(\d+)', rep)
        lib = [(f, os.path.basename(fl), ln) for f, fl, ln in fr[:2] if os.path.basename(fl) in srcs]
        if lib:
            sites['%s %s:%s' % lib[0]] += 1
        else:
            sites['(harness bookkeeping variables only)'] += 1
    unexpected = {k: v for k, v in sites.items() if not k.startswith(BENIGN_RACE_SITES) and not k.startswith('(harness')}
    ctx.cov['thread_sanitizer'] = {'cases': len(cases), 'race_reports_by_library_site': dict(sites.most_common(40)),
                                   'expected_benign_sites': list(BENIGN_RACE_SITES),
                                   'unexpected_library_sites': unexpected,
                                   'note': 'observations only: a race is not a violation unless it breaks an observable claim of the property (the oracle ran on these cases too)'}
    if unexpected:
        ctx.notes.append('ThreadSanitizer reported races at library sites outside the known benign set: %s' % unexpected)
    d.report()


CORPUS = [
    # signals as exceptions in several threads (each catches its own); del() by a thread that does not own the object
    '1x|0,1,2|S1 S2 S3 [ x0 e9 ]6 e1 } [ x1 ]7 e2 } J1 J2 J3 P1|[ x0 e9 ]6 e1 } [ x1 ] e2 } o|[ x0 ]6 e1 } [ [ x2 ]6 } ]8 e3 } o|e5 [ x0 ] } [ x3 e7 ] e8 }',
    '1|0,1,2|p0 p1 a1 S1 S2 w0,30 J1 J2 o D0 D1 c|d0,0 d0,1 d0,100 e1 p0 z20 e2|z5 d0,0 d1,0 d0,1 e3',
    # a worker inside a try block copies itself (copy(current(Thread))) and calls the copy; main copies a finished thread;
    # results published with new_root / new_raw; a managed object held only by the TLS under a "__" key
    '1|0,1,2|S1 J1 P1 K3,1 J3 P3|s1,5 [ o K2,1 s2,6 o p0 p1 h0 c ] } J2 P2 e1|o m2 [ g1 ]0 } [ t1 ]1 o } e2|o m1 m2 e3',
    # Thread-object reuse: call / join / read, three rounds; the run sleeps before its last result
    '1|0,1|S1 J1 P1 S1 e5 J1 P1 S1 J1 P1|s1,4 o a0 c W0( i0 ) z5 e9',
    '2g|0,1,2|S1 S2 J2 P2 J1 P1 S1 S2 J1 P1 J2 P2 S2 J2 P2|[ t1 ]1 o } w0,10 z3 e1|w6,5 s2,7 z3 e2|e3',
    # fixed f2b0c3a: the main thread collects (its stack holds the managed Thread objects) while the workers'
    # TLS tables grow, rehash and shrink — Thread_Mark used to walk the foreign tables (ValueError / SIGSEGV
    # in the collecting thread, lost TLS bindings in the workers)
    '1g|0|S1 S2 S3 S4 w7,2000 J1 J2 J3 J4 P1|w6,300 e1|w6,300 e2|w6,300 e3|w6,300 e4',
    # control of the open finding: the same shared Array NOT owned by a collector (new_raw): must pass
    '1|0|S1 S2 w7,300 J1 J2|w8,100|w8,100',
    # exception nests in two threads + TLS + with-section + trylock section
    '2|1,2,1,2,0|S1 S2 e1 [ t3 e9 ]3 e4 } J1 J2 P1 P2|a1 a0 c s1,5 g1 [ g2 ] } o W0( i0 ) e2 w0,20 w3,30|[ [ t2 ]1 e5 } ] e6 } T1 i1 U1 m1 [ r1 ]0 o } a1 a1 u0 c w4,5',
    # four identical exception-heavy workers (a process-wide exception record would mix them up)
    '1|0,1,2,3,4|S1 S2 S3 S4 [ t1 ]1 o } J1 P1 J2 P2 J3 P3 J4 P4|'
    + '|'.join(['[ o [ t%d ]%d o } o ] } w4,20 [ [ t2 ]3 } ]2 o } s1,%d g1 o' % (u, u, u) for u in range(1, 5)]),
    # contention on one mutex by lock / trylock / with
    '1|0,1,2,3|S1 S2 S3 L0 i0 U0 J1 J2 J3|L0 i0 y i0 U0 T0 i0 U0 W0( i0 y i0 )|T0 i0 U0 T0 i0 y i0 U0 W0( i0 )|W0( i0 ) L0 i0 U0 T0 i0 U0 W0( i0 i0 )',
    # allocation-heavy threads with rooted probes: collections run in every thread
    '1|1,2,1,2|S1 S2 a1 a0 w3,60 c J2 J1 P1 P2|a1 a1 a0 w3,100 c u0 w3,100 c o|a0 a1 w3,100 a0 c w3,60 u0 c',
]


def run(ctx):
    quick = ctx.tier == 'quick'
    ctx.cov['rule'] = (
        'seeded multi-thread programs: 1-16 Cello Threads in a spawn tree (each created, joined and read by the main thread or by '
        'a lower-numbered worker; quick: counts drawn from '
        '{1,2,3,4,5,7,8,12,15,16}; thorough: every count 1..16), each thread a random program over probe allocation / '
        'unroot / forced collection, thread-local storage set/get/mem/rem, nested try/throw/catch (0-2 classes, '
        'propagation through non-matching handlers), container work (Array, Table, List, Tree, allocation-heavy '
        'Strings that trigger automatic collections, library-raised KeyErrors, TLS-table-heavy rounds that make the '
        'thread\'s TLS table grow/rehash/shrink, rounds of forced collections), Thread objects either raw or owned by the '
        'main thread\'s collector (flag g, half of the cases), critical sections by lock/unlock, '
        'trylock loops, try-once sections (skipped when busy) and with-blocks (nested in lock order) with non-atomic counter increments, join + read of the '
        'joined thread\'s trace; copies of Thread objects (a worker copies itself inside a try block, main copies a finished child) that start with '
        'a TLS snapshot and must get their own exception context and collector (checked at every thread start); results published with '
        'new_root / new_raw read by the joiner after join; managed objects held only by the TLS (keys with and without a __ prefix); long-hold exclusion scenarios (one thread keeps a Mutex for 1.3 s and 2.5 s — thorough also 5 s and 11 s — '
        'while three others wait by lock(), with-block, lock() after a failed trylock(); sections are logged with monotonic timestamps); sched_yield/nanosleep injected between instructions by the case seed.  Every worker '
        'program runs alone first, then all together; the schedule is whatever the kernel produces.  A case is '
        'non-trivial when the harness measured at least two threads inside their programs at the same time '
        '(maxpar >= 2); distinct = distinct implementation transcripts.  Cases the model flags as aborting (uncaught '
        'exception = process exit, documented behaviour) are filtered out before running.')
    ctx.assumptions += [
        'pthread semantics assumed (mutex = owner option, lock blocks, join waits for the end of Thread_Init_Run); '
        'sequentially consistent interleaving model; memory ordering, pthread, lazily initialised process-wide state '
        '(Thread_TLS_Key_Created, type caches, static headers) are exercised by the runs only',
        'C text tied by correspondence only: per-thread traces, counters and peeks of the extracted machine vs the library '
        'built from the working tree; Generated.v re-reads Exception_Current / GC_Current / Thread_Current / Thread_Init_Run / '
        'Mutex_Trylock / exception_catch / Thread_Join shapes and the list of mutable statics',
        'conservative stack scanning may postpone a finalisation: collector events are compared as cumulative sets',
    ]
    ctx.coq()
    h = ctx.build_harness('threads.c')
    env = dict(os.environ, H_TIMEOUT='20')
    drv = None
    stats = ctx.cov.setdefault('harness_counters', {'cases_with_trylock_contention': 0, 'trylock_misses': 0,
                                                    'max_threads_simultaneously_running': 0, 'maxpar_histogram': {},
                                                    'exceptions_caught_by_class': {}, 'collections_that_finalised_something': 0})

    cache = {}

    def run_impl(cs):
        if cs and all(c in cache for c in cs):
            return [cache.pop(c) for c in cs]      # long-hold scenarios prefetched in the background
        if drv:
            # never run a program on the library that the machine says is out of contract (deadlock = 20 s)
            sp = ctx.run_lines(drv, cs, args=['spec'])[1]
            good = [c for c, x in zip(cs, sp) if x.endswith('# ok')]
            res = iter(ctx.run_lines(h, good, env=env, timeout=3000, shard=80)[1]) if good else iter([])
            out = [next(res) if x.endswith('# ok') else 'INVALID ' + x.split(' # ')[-1] for x in sp]
        else:
            out = ctx.run_lines(h, cs, env=env, timeout=3000)[1]
        for n, o in enumerate(out):
            if (o.endswith('TIMEOUT') or o.startswith('HARNESS-')) and stats.get('timeouts_retried', 0) < 2 and not os.environ.get('VERIF_NO_RETRY'):
                # a loaded machine can starve 17 threads for 20 s: once more, alone, with a long watchdog
                stats['timeouts_retried'] = stats.get('timeouts_retried', 0) + 1
                r2 = ctx.run_lines(h, [cs[n]], env=dict(env, H_TIMEOUT='150'), timeout=400)[1]
                if r2:
                    out[n] = r2[0]
        for o in out:
            q = re.search(r'qskip=(\d+)', o)
            if q:
                stats['tryonce_sections_refused'] = stats.get('tryonce_sections_refused', 0) + int(q.group(1))
            m = re.search(r'miss=(\d+) maxpar=(\d+)', o)
            if m:
                ms, mp = int(m.group(1)), int(m.group(2))
                stats['trylock_misses'] += ms
                stats['cases_with_trylock_contention'] += 1 if ms else 0
                stats['max_threads_simultaneously_running'] = max(stats['max_threads_simultaneously_running'], mp)
                stats['maxpar_histogram'][str(mp)] = stats['maxpar_histogram'].get(str(mp), 0) + 1
                cpart = o.split(' ## C: ')[1] if ' ## C: ' in o else ''
                for e in re.findall(r'[,:]C(\d+)', cpart.split(' # ')[0]):
                    stats['exceptions_caught_by_class'][e] = stats['exceptions_caught_by_class'].get(e, 0) + 1
                stats['collections_that_finalised_something'] += len(re.findall(r'f\{\d', cpart.split(' # ')[0]))
        return out
    try:
        drv = ctx.build_driver('Threads')
    except vlib.ModelBuildError as e:
        # the machine can no longer be regenerated from the source (a Generated.v pattern is gone): the
        # property's own oracle needs no model — search for a concrete failing input with programs that
        # cannot abort whatever the exception rules are
        drv = None
        ctx.notes.append('model build error: %s' % e)
        ctx.violation('model', {'kind': 'the Coq model no longer builds against coq/Generated.v regenerated from the source',
                                'detail': str(e)[-3000:], 'theorem_or_file': 'Extract_Threads.v / Generated.v'},
                      no_failing_input=True)
    if drv:
        run_model = lambda cs: ctx.run_lines(drv, cs, args=['model'])[1]
        run_spec = lambda cs: ctx.run_lines(drv, cs, args=['spec'])[1]
    else:
        run_model = None
        run_spec = lambda cs: [''] * len(cs)
    d = vlib.Differential(ctx, 'threads', run_impl, run_model, run_spec, oracle, corr, nontrivial, split if drv else None, join if drv else None, classify)
    safe = drv is None

    def usable(cases):
        """drop cases in which the model aborts / gets stuck (out of contract), and check that the
        machine's result does not depend on the schedule (sanity of the isolation theorem)"""
        if not cases or not drv:
            return cases
        m1 = run_model(cases)
        m2 = ctx.run_lines(drv, cases, args=['sched2'])[1]
        sp = run_spec(cases)
        keep = []
        for c, a, b, s in zip(cases, m1, m2, sp):
            if not a.endswith('# ok') or not s.endswith('# ok'):
                ctx.cov['filtered_out'] = ctx.cov.get('filtered_out', 0) + 1
                continue
            if 'Q' in c:     # counters depend on which try-once sections were refused under the schedule
                a, b, s = (' # '.join(x.split(' # ')[:1] + x.split(' # ')[2:]) for x in (a, b, s))
            if a != b or a != s:
                if getattr(ctx, 'proof_broken', None):
                    # the theorems no longer hold for the regenerated parameters: expected, keep searching
                    ctx.cov['schedule_dependent_model_cases'] = ctx.cov.get('schedule_dependent_model_cases', 0) + 1
                    keep.append(c)
                    continue
                ctx.notes.append('machine result depends on the schedule (contradicts isolation theorem): ' + c[:300])
                ctx.violation('model_schedule', {'kind': 'extracted machine gives schedule-dependent results',
                                                 'theorem_or_file': 'Properties_C13.v isolation', 'case': c,
                                                 'model': a, 'model_reversed_schedule': b, 'spec': s}, no_failing_input=True)
                continue
            keep.append(c)
        return keep

    rp = os.environ.get('VERIF_REPLAY')
    if rp:
        r = json.load(open(rp))
        cases = [r['case']] if 'case' in r else CORPUS
        for rep in range(5):
            d.feed(cases)
        for x in (d.oracle_fail + d.corr_fail)[:3]:
            print('REPLAY: %s\n  impl  %s\n  model %s\n  spec  %s' % (x[4], x[1], x[2], x[3]))
        d.report()
        return
    # long-hold exclusion scenarios (Mutex_Lock must not give up): started now, side by side with everything else
    import threading
    holds = [1300, 2500] if quick else [1300, 2500, 5000, 11000]
    if getattr(ctx, 'proof_broken', None) and quick:
        holds += [5000]        # directed search: the static tie on Mutex_Lock (or another obligation) is broken
    long_cases = [long_hold_case(ms, n % 2) for n, ms in enumerate(holds)]
    bg_out = {}

    def bg():
        res = ctx.run_lines(h, long_cases, env=dict(env, H_TIMEOUT='90'), timeout=400, shard=1)[1]
        for c, o in zip(long_cases, res):
            bg_out[c] = o
    bgt = threading.Thread(target=bg)
    bgt.start()
    d.feed(usable(CORPUS), 'corpus')
    known_finding_probe(ctx, lambda cs: ctx.run_lines(h, cs, env=env, timeout=600)[1])
    if quick:
        plan = [(None, None, False)] * 1000 + [(16, 8, False)] * 60 + [(4, 14, True)] * 40 + [(2, 22, True)] * 40 + [('reuse', 8, False)] * 150 + [('clone', 8, False)] * 100
    else:
        plan = [(n, None, False) for n in range(1, 17) for _ in range(500)] + [(n, 14, True) for n in range(1, 17) for _ in range(20)] + [('reuse', 8, False)] * 800 + [('clone', 8, False)] * 600
    cases = usable([gen_case(ctx.rng, None if n in ('reuse', 'clone') else n, s, hv, safe, n == 'reuse', n == 'clone') for (n, s, hv) in plan])
    cases += usable([signal_case(ctx.rng) for _ in range(60 if quick else 600)] + [foreign_del_case(ctx.rng) for _ in range(60 if quick else 600)])
    for i in range(0, len(cases), 320):      # run_lines runs shards of 80 cases side by side
        d.feed(cases[i:i + 320])
    ctx.cov['thread_counts'] = sorted(set(c.count('|') - 1 for c in cases))
    hist = {}
    for c in cases:
        for t in c.split('|', 2)[2].replace('|', ' ').split():
            k = t[0] if t[0] != 'w' else t.split(',')[0]
            hist[k] = hist.get(k, 0) + 1
    ctx.cov['instruction_histogram'] = dict(sorted(hist.items()))
    ctx.cov['program_tokens'] = {'min': min(len(c.split()) for c in cases), 'max': max(len(c.split()) for c in cases),
                                 'mean': round(sum(len(c.split()) for c in cases) / max(1, len(cases)), 1)}
    ctx.cov['cases_with_threads_created_by_workers'] = sum(1 for c in cases if any(t[0] == 'S' for p in c.split('|')[3:] for t in p.split()))
    ctx.cov['cases_with_collector_owned_thread_objects'] = sum(1 for c in cases if c.split('|')[0].endswith('g'))

    if not quick and not os.environ.get('VERIF_NO_TSAN'):
        tsan_pass(ctx, usable([gen_case(ctx.rng, n, 10, i % 5 == 0, safe) for i, n in enumerate([2, 3, 4, 8, 16] * 30)]),
                  run_model, run_spec)

    bgt.join()
    cache.update(bg_out)
    ctx.cov['long_hold_scenarios'] = {'hold_ms': holds, 'transcripts': {c: bg_out.get(c, '')[-260:] for c in long_cases}}
    d.feed(long_cases)

    def extra(dd):
        more = usable([gen_case(ctx.rng, None, None, i % 4 == 0, safe) for i in range(600)])
        for i in range(0, len(more), 100):
            dd.feed(more[i:i + 100])
    d.report(extra)
