"""C12 — a failed operation is reported as an exception and changes nothing.

Three parts:
 1. Coq: Properties_C12.v (raising steps of the faithful container models change nothing; outside the
    contract the documented exception is raised; the models follow the abstract objects along every
    history, failures included; guarded-operation shape; contract table of the matrix).
 2. Failed-operation matrix (harness/err_matrix.c): every (container kind, size, invalid call) cell;
    the accepted exceptions come from the Coq table `ErrorsModel.contract` (extracted); the oracle
    demands: an accepted exception, the object's public dump unchanged, the object still usable.
 3. Invalid-heavy histories through the white-box harnesses and extracted models of C04 (Array, List,
    Tuple), C02 (Table) and C16 (String): an ATOMICITY oracle on the implementation transcript alone
    (a step that raised must leave the dump of the previous step) plus the exact correspondence with
    the models, whose raising steps provably return their input state."""
import os, json, re
import vlib
from props import C02 as P2, C03 as P3, C04 as P4, C16 as P16

EXN = re.compile(r'^[A-Za-z]*Error$')
SIZES = [0, 1, 2, 5, 13]
KINDS = 'ALUTRKSGHJVZ'


def matrix_cases(contract, sizes):
    cs = []
    for sc, kinds, _ in contract:
        for k in kinds:
            for n in sizes:
                cs.append('%s %d %s' % (k, n, sc))
    return list(dict.fromkeys(cs))


def matrix_signature(case, line):
    k, n, sc = case.split(' ')
    if sc == 'concat_wrongtype' and k in 'AL' and 'CHANGED' in line:
        return 'concat-partial-on-failing-element'
    if sc.startswith('print_fewargs') and 'CHANGED' in line:
        return 'print-partial-output-before-formaterror'
    if k == 'G' and sc in ('get_neg', 'get_min') and line.startswith('ok;'):
        return 'range-get-negative-index'
    return None


def matrix_oracle(accept):
    def oracle(case, impl, spec):
        k, n, sc = case.split(' ')
        f = impl.split(';')
        if f[0] == 'NA':
            return None
        if len(f) < 3 or ' | ' in impl:
            return 'no complete transcript (crash / timeout / sanitizer report): %s' % impl[-80:]
        ok = accept.get((sc, k))
        if ok is None:
            return None
        if f[0] not in ok:
            return '%s on kind %s size %s: reported as %s, documented: %s' % (sc, k, n, f[0], '/'.join(ok))
        if f[1] != 'same':
            return '%s on kind %s size %s raised %s but the object changed: %s' % (sc, k, n, f[0], f[1][:160])
        if not f[2].startswith('usable'):
            return '%s on kind %s size %s raised %s; afterwards the object is not usable: %s' % (sc, k, n, f[0], f[2][:160])
        return None
    return oracle


# ---------------------------------------------------------------- atomicity oracles on transcripts
def atom_seq(case, impl, spec):
    """C04 transcript: out;len;get;neg;iter;mem;nslots per step.  A step whose outcome is an exception
    must reproduce the previous step's len/get/neg/iter/mem; CRASH/TIMEOUT is a violation."""
    prev = None
    for n, st in enumerate(impl.split(' | ')):
        f = st.split(';')
        if len(f) != 7:
            return 'step %d: %s' % (n, st[:80])
        if EXN.match(f[0]) and prev is not None and f[1:6] != prev[1:6]:
            return 'step %d raised %s but the container changed: %s -> %s' % (n, f[0], ';'.join(prev[1:6]), ';'.join(f[1:6]))
        prev = f
    return None


def atom_table(case, impl, spec):
    prev = None
    for n, (out, ln, slots, it) in enumerate(P2.parse(impl)):
        if ln is None:
            return 'step %d: %s' % (n, out[:80])
        if EXN.match(out) and prev is not None and (ln, slots, it) != prev:
            return 'step %d raised %s but the table changed' % (n, out)
        prev = (ln, slots, it)
    return P2.oracle(case, impl, spec)


def atom_tree(case, impl, spec):
    """C03 transcript: out;len;shape;fwd;bwd per step; a raising step must reproduce the previous tree"""
    prev = None
    for n, a in enumerate(P3.steps(impl)):
        if len(a) != 5:
            return 'step %d: %s' % (n, ';'.join(a)[:80])
        if EXN.match(a[0]) and prev is not None and a[1:] != prev[1:]:
            return 'step %d raised %s but the tree changed' % (n, a[0])
        prev = a
    return P3.oracle(case, impl, spec)


def gen_tree_invalid(rng, maxops):
    base = P3.gen_case(rng, rng.randrange(2, 14), rng.choice(['random', 'asc', 'small', 'dups']))
    kt, toks = P3.split(base)
    keys = [int(m) for m in re.findall(r's(-?\d+),', base)] or [1, 2, 3]
    for _ in range(rng.randrange(2, maxops)):
        r = rng.random()
        absent = rng.choice([k for k in (max(keys) + 7, min(keys) - 3, 2 ** 62, -2 ** 63, 777777)
                             if -2 ** 63 <= k < 2 ** 63 and k not in keys])
        if r < .3: toks.append('g%d' % absent)
        elif r < .55: toks.append('r%d' % absent)
        elif r < .7: toks.append('z%d' % rng.choice([1, 2, 50]))      # a Tree can only be resized to 0: FormatError
        elif r < .85: toks.append('s%d,%d' % (rng.choice(keys), rng.randrange(100)))
        else: toks.append('r%d' % rng.choice(keys))
    return P3.join(kt, toks)


def gen_table_invalid(rng, maxops):
    """valid prefix then absent-key get/rem and impossible resizes interleaved with valid operations"""
    base = P2.gen_case(rng, rng.randrange(2, 14))
    hs, ops = base.split('|', 1)
    toks = ops.split(' ') if ops else []
    keys = [int(m) for m in re.findall(r's(-?\d+),', ops)] or [1, 2, 3]
    for _ in range(rng.randrange(2, maxops)):
        r = rng.random()
        absent = rng.choice([k for k in (max(keys) + 7, min(keys) - 3, 2 ** 62, -2 ** 63, 777777)
                             if -2 ** 63 <= k < 2 ** 63 and k not in keys])
        if r < .3: toks.append('g%d' % absent)
        elif r < .55: toks.append('r%d' % absent)
        elif r < .7: toks.append('z%d' % rng.choice([1, 2]))       # smaller than nitems when the table is larger
        elif r < .85: toks.append('s%d,%d' % (rng.choice(keys), rng.randrange(100)))
        else: toks.append('r%d' % rng.choice(keys))
    return hs + '|' + ' '.join(toks)


def run(ctx):
    quick = ctx.tier == 'quick'
    ctx.cov['rule'] = ('(1) failed-operation matrix: every cell (container kind in Array/List/Tuple/Table<Int>/Tree/Table<String>/String/Range, '
                       'size in %s, invalid call of the extracted contract table: index one past either end / far out / INT64_MAX / INT64_MIN, '
                       'pop from empty, absent element or key, wrong-typed key or value, NULL, unimplemented class, cast to another type, '
                       'impossible resize, too few format arguments) — enumerated completely; (2) seeded invalid-heavy histories through the '
                       'white-box harnesses of C04, C02 and C16 (valid prefix, then invalid and valid operations interleaved); a case is '
                       'non-trivial when at least one operation raised on a non-empty container; distinct = distinct transcripts' % SIZES)
    ctx.assumptions += ['default (checked) build; the theorems are about the container models of C02/C04/C16, tied to the C text by '
                        'their white-box correspondence (repeated here on invalid-heavy histories)',
                        'which exception reports a wrong-typed argument is not fixed by the property: ValueError, TypeError and '
                        'ClassError are accepted (contract table in coq/ErrorsModel.v)']
    ctx.coq()
    # ---------------- part 2: the matrix
    ed = ctx.build_driver('Errors', plain=True)
    rows = [l.split(' ') for l in vlib.sh([ed])[1].splitlines() if l.strip()]
    contract = [(r[0], r[1], r[2].split(',')) for r in rows]
    accept = {}
    for sc, kinds, es in contract:
        for k in kinds:
            accept[(sc, k)] = es
    hm = ctx.build_harness('err_matrix.c')
    run_m = lambda cs: ctx.run_lines(hm, cs)[1]
    dm = vlib.Differential(ctx, 'matrix', run_m, None, lambda cs: [''] * len(cs), matrix_oracle(accept), None,
                           nontrivial=lambda c, i: c.split(' ')[1] != '0' and not i.startswith('NA') and not i.startswith('ok'),
                           classify=lambda c, i, why: matrix_signature(c, i))
    rp = os.environ.get('VERIF_REPLAY')
    if rp:
        r = json.load(open(rp))
        h = r.get('harness')
        if h == 'matrix' and 'case' in r:
            dm.feed([r['case']])
            for x in dm.oracle_fail:
                print('REPLAY: %s\n  impl  %s' % (x[4], x[1]))
            dm.report()
            return
    cells = matrix_cases(contract, SIZES if quick else [0, 1, 2, 3, 5, 8, 13, 40])
    dm.feed(cells)
    ctx.cov['exhaustive'] = True
    ctx.cov['matrix_cells'] = len(cells)
    na = sum(1 for c in cells if run_m([c]) == ['NA;same;usable']) if False else None
    dm.report()
    # open findings of this property are probed by the matrix cells themselves (signature match)
    if not quick:
        # "never by memory corruption": the same matrix on an AddressSanitizer build (an ASan report aborts the
        # forked case: EXIT/CRASH marker = incomplete transcript = violation)
        try:
            ctx.build_lib('asan', cflags=['-fsanitize=address', '-fno-omit-frame-pointer', '-O1'])
            ha = ctx.build_harness('err_matrix.c', tag='asan', name='err_matrix_asan', extra=['-fsanitize=address', '-fno-omit-frame-pointer'])
            env = dict(os.environ, ASAN_OPTIONS='detect_leaks=0:abort_on_error=0:exitcode=99')
            da = vlib.Differential(ctx, 'matrix_asan', lambda cs: ctx.run_lines(ha, cs, env=env)[1], None, lambda cs: [''] * len(cs),
                                   matrix_oracle(accept), None, classify=lambda c, i, why: matrix_signature(c, i))
            da.feed(cells)
            da.report()
            ctx.cov['asan_matrix_cells'] = len(cells)
        except vlib.HarnessBuildError as e:
            ctx.notes.append('ASan build of the matrix harness failed: %s' % str(e)[-300:])

    # ---------------- part 3: invalid-heavy histories on the faithful models
    # sequences (C04 machinery)
    drv = ctx.build_driver('Seq')
    try:        # as props/C04.py does: exact capacity comparison only when the capacity policy was read from the source
        P4.EXACT_CAPACITY[0] = 'array_policy_from_source : bool := true' in open(os.path.join(vlib.COQ, 'Generated.v')).read()
    except OSError:
        P4.EXACT_CAPACITY[0] = False
    h = ctx.build_harness('seq_wb.c', whitebox=['Array', 'List'], extra=P4.list_cursor_flags(ctx))   # built exactly as C04 builds it
    ri = lambda cs: ctx.run_lines(h, cs)[1]
    rm = lambda cs: ctx.run_lines(drv, cs, args=['model'])[1]
    ds = vlib.Differential(ctx, 'seq_invalid', ri, rm, lambda cs: [''] * len(cs), atom_seq, P4.corr,
                           nontrivial=lambda c, i: bool(re.search(r'Error;[1-9]', i)), split=P4.split, join=P4.join)
    if rp:
        r = json.load(open(rp))
        if r.get('harness') == 'seq_invalid':
            ds.feed([r['case']]); ds.report(); return
    n = 1500 if quick else 40000
    cases = [P4.gen_invalid(ctx.rng, k, 14) for k in 'ALTS' for _ in range(n // 4)]
    for i in range(0, len(cases), 2000):
        ds.feed(cases[i:i + 2000])
    ds.report(lambda dd: dd.feed([P4.gen_invalid(ctx.rng, k, 20) for k in 'ALTS' for _ in range(2000)]))
    # tables (C02 machinery)
    drv2 = ctx.build_driver('Table')
    h2 = ctx.build_harness('table_wb.c', whitebox='Table')
    dt = vlib.Differential(ctx, 'table_invalid', lambda cs: ctx.run_lines(h2, cs)[1],
                           lambda cs: ctx.run_lines(drv2, cs, args=['model'])[1],
                           lambda cs: ctx.run_lines(drv2, cs, args=['spec'])[1], atom_table, P2.corr,
                           nontrivial=lambda c, i: 'Error;' in i, split=P2.split, join=P2.join)
    if rp:
        r = json.load(open(rp))
        if r.get('harness') == 'table_invalid':
            dt.feed([r['case']]); dt.report(); return
    cases = [gen_table_invalid(ctx.rng, 14) for _ in range(800 if quick else 20000)]
    for i in range(0, len(cases), 2000):
        dt.feed(cases[i:i + 2000])
    dt.report(lambda dd: dd.feed([gen_table_invalid(ctx.rng, 20) for _ in range(4000)]))
    # trees (C03 machinery)
    drv4 = ctx.build_driver('Tree')
    h4 = ctx.build_harness('tree_wb.c', whitebox='Tree')
    dtr = vlib.Differential(ctx, 'tree_invalid', lambda cs: ctx.run_lines(h4, cs)[1],
                            lambda cs: ctx.run_lines(drv4, cs, args=['model'])[1],
                            lambda cs: ctx.run_lines(drv4, cs, args=['spec'])[1], atom_tree, P3.corr,
                            nontrivial=lambda c, i: 'Error;' in i, split=P3.split, join=P3.join)
    if rp:
        r = json.load(open(rp))
        if r.get('harness') == 'tree_invalid':
            dtr.feed([r['case']]); dtr.report(); return
    cases = [gen_tree_invalid(ctx.rng, 14) for _ in range(600 if quick else 15000)]
    for i in range(0, len(cases), 2000):
        dtr.feed(cases[i:i + 2000])
    dtr.report()
    # strings (C16 machinery): its oracle already demands outcome and characters after every step, failed rem included
    drv3 = ctx.build_driver('StringM')
    h3 = ctx.build_harness('string_ops.c', whitebox='String')
    d16 = vlib.Differential(ctx, 'string_invalid', lambda cs: ctx.run_lines(h3, cs)[1],
                            lambda cs: ctx.run_lines(drv3, cs, args=['model'])[1],
                            lambda cs: ctx.run_lines(drv3, cs, args=['spec'])[1], P16.oracle, P16.corr,
                            nontrivial=lambda c, i: 'ValueError' in i, split=P16.split, join=P16.join)
    if rp:
        r = json.load(open(rp))
        if r.get('harness') == 'string_invalid':
            d16.feed([r['case']]); d16.report(); return
    cases = []
    for _ in range(600 if quick else 15000):
        c = P16.gen_case(ctx.rng, 16)
        # make absent needles frequent: append rem/mem of a byte outside the alphabet
        init, toks = P16.split(c)
        for _ in range(ctx.rng.randrange(1, 4)):
            toks.insert(ctx.rng.randrange(0, len(toks) + 1), ctx.rng.choice(['r7a', 'r7a7a', 'r61627a']))
        cases.append(P16.join(init, toks))
    for i in range(0, len(cases), 2000):
        d16.feed(cases[i:i + 2000])
    d16.report()
