"""C09 — cmp is a consistent total order and the predicates derive from it."""
import os, json, struct
import vlib

# ------------------------------------------------------------------ value pools
I64MIN, I64MAX = -2**63, 2**63 - 1
INT_GRID = sorted(set(
    [0, 1, -1, 2, -2, 3, 7, -7, 100, 110, -110, 255, 256, 65535, 65536,
     2**31 - 1, 2**31, 2**31 + 1, -2**31, -2**31 - 1, -2**31 + 1,
     2**32 - 1, 2**32, 2**32 + 1, -2**32, -2**32 + 1, -2**32 - 1, 2**33, 3 * 2**32, 2**32 + 110,
     2**62, 2**62 + 110, -2**62, 2**62 - 1, 2**63 - 2**32, -2**63 + 2**32,
     I64MAX, I64MAX - 1, I64MIN, I64MIN + 1, 2**48, -2**48 + 5]))


def fbits(d):
    return struct.unpack('<Q', struct.pack('<d', d))[0]


FLOAT_GRID_POS = [0x0000000000000000, 0x0000000000000001, 0x0000000000000002, 0x000fffffffffffff,
                  0x0010000000000000, 0x0010000000000001, 0x001fffffffffffff, 0x0020000000000000,
                  fbits(1e-300), fbits(0.1), fbits(0.5), fbits(1.0) - 1, fbits(1.0), fbits(1.0) + 1,
                  fbits(1.5), fbits(2.0), fbits(3.0), fbits(1e15), fbits(2.0**53), fbits(2.0**53) + 1,
                  fbits(1e300), 0x7fe0000000000000, 0x7feffffffffffffe, 0x7fefffffffffffff,
                  0x7ff0000000000000]
FLOAT_GRID = FLOAT_GRID_POS + [b | (1 << 63) for b in FLOAT_GRID_POS]
STR_BYTES = [0x01, 0x20, 0x41, 0x42, 0x61, 0x62, 0x7f, 0x80, 0xc3, 0xfe, 0xff]
TYPE_NAMES = [b'Int', b'Float', b'String', b'Type', b'Tuple', b'Array', b'List', b'Tree', b'Table', b'Ref', b'Box',
              b'Range', b'In', b'Integer', b'Int_', b'int', b'A', b'Z', b'a', b'\xc3\xa9t\xc3\xa9', b'Tre', b'Tree2', b'\xff', b'']


def is_nan_bits(b):
    return (b >> 52) & 0x7ff == 0x7ff and (b & ((1 << 52) - 1)) != 0


def hexs(bs):
    return ''.join('%02x' % x for x in bs)


# ------------------------------------------------------------------ generators (all randomness from rng)
def g_int(rng):
    r = rng.random()
    if r < .6: return rng.choice(INT_GRID)
    if r < .8: return max(I64MIN, min(I64MAX, rng.choice(INT_GRID) + rng.choice([-1, 1]) * rng.choice([1, 2**32, 2**31, 2**33, 110])))
    return rng.randrange(I64MIN, I64MAX + 1)


def g_float(rng):
    r = rng.random()
    if r < .65: return rng.choice(FLOAT_GRID)
    while True:
        if r < .8:
            b = rng.choice(FLOAT_GRID) + rng.choice([-2, -1, 1, 2])
            b %= 1 << 64
        else:
            b = rng.getrandbits(64)
        if not is_nan_bits(b):
            return b


def g_str(rng, maxlen=6):
    return bytes(rng.choice(STR_BYTES) for _ in range(rng.choice([0, 1, 1, 2, 2, 3, 4, maxlen])))


def g_name(rng):
    return rng.choice(TYPE_NAMES) if rng.random() < .8 else bytes(rng.choice(STR_BYTES) for _ in range(rng.randrange(1, 5)))


class Gen:
    """value generator for one sort; a sort is a tuple tree: ('I',) ('F',) ('S',) ('Y',) ('B',tid,size)
    ('Q',elem) ('M',ksort,vsort).  Values are Python tuples mirroring the case syntax."""

    def __init__(self, rng):
        self.rng = rng

    def sort_text(self, s):
        k = s[0]
        if k in 'IFSY': return k
        if k == 'B': return 'B%d.%d' % (s[1], s[2])
        if k == 'Q': return 'Q(%s)' % self.sort_text(s[1])
        return 'M(%s,%s)' % (self.sort_text(s[1]), self.sort_text(s[2]))

    def fresh(self, s, inside=None):
        rng, k = self.rng, s[0]
        if k == 'I': return ('i', g_int(rng))
        if k == 'F': return ('f', g_float(rng))
        if k == 'S': return ('s', g_str(rng))
        if k == 'Y': return ('t', g_name(rng))
        if k == 'B': return ('b', s[1], bytes(rng.choice([0, 0, 1, 0x7f, 0x80, 0xff, rng.randrange(256)]) for _ in range(s[2])))
        if k == 'Q':
            kind = self.seq_kind(s[1])
            n = rng.choice([0, 1, 1, 2, 2, 3, 4])
            return self.norm_seq(kind, [self.fresh(s[1]) for _ in range(n)])
        n = rng.choice([0, 1, 1, 2, 3, 4])
        return self.force_kinds(('M', [(self.fresh(s[1]), self.fresh(s[2])) for _ in range(n)]))

    @staticmethod
    def norm_seq(kind, xs):
        """an Array/List stores its elements by value in ONE element type (assign between container kinds
        re-types the elements): nested sequences inside an Array/List all get the kind of the first"""
        if kind in 'AL' and xs and xs[0][0] in 'ALT':
            xs = [(xs[0][0], x[1]) if x[0] in 'ALT' else x for x in xs]
        return (kind, xs)

    @staticmethod
    def force_kinds(v):
        """a Tree stores keys (values) of ONE type: sequence keys (values) get the container kind of the first"""
        kvs = v[1]
        if kvs:
            kk, vk = kvs[0][0][0], kvs[0][1][0]
            kvs = [((kk, a[1]) if a[0] in 'ALT' else a, (vk, b[1]) if b[0] in 'ALT' else b) for a, b in kvs]
        return ('M', kvs)

    def seq_kind(self, elem):
        # Type objects cannot be stored by value in an Array/List (no Assign on Type): Tuples only
        return 'T' if elem[0] == 'Y' else self.rng.choice('ALT')

    def mutate(self, s, v):
        """a value of the same sort near v: equal under another representation, or differing late"""
        rng, k = self.rng, s[0]
        r = rng.random()
        if r < .25:
            return self.same(s, v)
        if k == 'I':
            return ('i', max(I64MIN, min(I64MAX, v[1] + rng.choice([-1, 1]) * rng.choice([1, 2**31, 2**32, 2**33, 2**63, 2**62]))))
        if k == 'F':
            b = v[1]
            c = rng.choice(['neg', 'ulp', 'ulp', 'fresh'])
            if c == 'neg': b ^= 1 << 63
            elif c == 'ulp': b = (b + rng.choice([-1, 1])) % (1 << 64)
            else: b = g_float(rng)
            return ('f', b if not is_nan_bits(b) else v[1])
        if k in 'SY':
            b = v[1]
            c = rng.choice(['prefix', 'extend', 'change', 'fresh'])
            if c == 'prefix' and b: b = b[:rng.randrange(len(b))]
            elif c == 'extend': b = b + bytes([rng.choice(STR_BYTES)])
            elif c == 'change' and b:
                i = rng.randrange(len(b)); b = b[:i] + bytes([rng.choice(STR_BYTES)]) + b[i + 1:]
            else: b = g_str(rng) if k == 'S' else g_name(rng)
            return (v[0], b)
        if k == 'B':
            b = bytearray(v[2]); i = rng.randrange(len(b)); b[i] = rng.choice([0, 1, 0x7f, 0x80, 0xff, (b[i] + 1) % 256])
            return ('b', v[1], bytes(b))
        if k == 'Q':
            xs = list(v[1]); kind = self.seq_kind(s[1])
            c = rng.choice(['prefix', 'extend', 'change', 'change'])
            if c == 'prefix' and xs: xs = xs[:rng.randrange(len(xs))]
            elif c == 'extend' or not xs: xs = xs + [self.fresh(s[1])]
            else:
                i = rng.randrange(len(xs)); xs[i] = self.mutate(s[1], xs[i])
            return self.norm_seq(kind, [self.same(s[1], x) for x in xs])
        kvs = list(v[1])
        c = rng.choice(['drop', 'add', 'val', 'key'])
        if c == 'drop' and kvs: kvs.pop(rng.randrange(len(kvs)))
        elif c == 'add' or not kvs: kvs.append((self.fresh(s[1]), self.fresh(s[2])))
        elif c == 'val':
            i = rng.randrange(len(kvs)); kvs[i] = (kvs[i][0], self.mutate(s[2], kvs[i][1]))
        else:
            i = rng.randrange(len(kvs)); kvs[i] = (self.mutate(s[1], kvs[i][0]), kvs[i][1])
        rng.shuffle(kvs)
        return self.force_kinds(('M', kvs))

    def same(self, s, v):
        """an equal value, where possible under a different representation"""
        rng, k = self.rng, s[0]
        if k == 'F' and v[1] in (0, 1 << 63): return ('f', rng.choice([0, 1 << 63]))
        if k == 'Q':
            return self.norm_seq(self.seq_kind(s[1]), [self.same(s[1], x) for x in v[1]])
        if k == 'M':
            kvs = [(self.same(s[1], a), self.same(s[2], b)) for a, b in v[1]]
            return self.force_kinds(('M', kvs))      # insertion order kept: a shuffle may change which of two equal keys wins
        return v

    def text(self, v):
        k = v[0]
        if k == 'i': return 'i%d' % v[1]
        if k == 'f': return 'f%016x' % v[1]
        if k in 'st': return k + hexs(v[1])
        if k == 'b': return 'b%d.%s' % (v[1], hexs(v[2]))
        if k in 'ALT': return k + '(' + ','.join(self.text(x) for x in v[1]) + ')'
        return 'M(' + ','.join(self.text(a) + ':' + self.text(b) for a, b in v[1]) + ')'

    def triple(self, s):
        rng = self.rng
        a = self.fresh(s)
        b = self.mutate(s, a) if rng.random() < .7 else self.fresh(s)
        r = rng.random()
        c = self.mutate(s, a) if r < .35 else self.mutate(s, b) if r < .7 else self.fresh(s)
        vs = [a, b, c]
        rng.shuffle(vs)
        return 'C %s %s' % (self.sort_text(s), ' '.join(self.text(v) for v in vs))


SCALARS = [('I',), ('F',), ('S',), ('Y',), ('B', 1, 3), ('B', 2, 8), ('B', 1, 1), ('B', 3, 16)]
AL_ELEMS = [('I',), ('F',), ('S',), ('B', 1, 3)]


def random_sort(rng, depth=0):
    r = rng.random()
    if depth >= 2 or r < .25:
        return rng.choice(SCALARS)
    if r < .75:
        return ('Q', random_sort(rng, depth + 1))
    ks = rng.choice([('I',), ('F',), ('S',), ('Q', ('I',))])
    vs = random_sort(rng, depth + 1)
    while vs == ('Y',):            # a Type object cannot be stored by value
        vs = random_sort(rng, depth + 1)
    return ('M', ks, vs)


def cross_case(g):
    """values of different sorts (the property is silent; model and implementation must still agree
    on raising); no Tree on one side against a sequence on the other, at any depth"""
    rng = g.rng

    def scal():
        return g.fresh(rng.choice(SCALARS))
    def anyv():
        r = rng.random()
        if r < .5: return scal()
        if r < .8: return ('T', [scal() for _ in range(rng.randrange(0, 4))])
        if r < .9: return g.fresh(('Q', rng.choice(AL_ELEMS)))
        return g.fresh(('M', ('I',), ('I',)))
    vs = [anyv() for _ in range(3)]
    has_tree = any(v[0] == 'M' for v in vs)
    if has_tree:
        vs = [v if v[0] not in 'ALT' else scal() for v in vs]
    return 'C ? ' + ' '.join(g.text(v) for v in vs)


def key_case(g, s):
    rng = g.rng
    n = rng.choice([2, 3, 4, 6, 8, 12])
    ks = [g.fresh(s)]
    while len(ks) < n:
        ks.append(g.mutate(s, rng.choice(ks)) if rng.random() < .6 else g.fresh(s))
    ks = [(ks[0][0], k[1]) if k[0] in 'ALT' else k for k in ks]      # one key type per Tree
    return 'K %s %s' % (g.sort_text(s), ' '.join(g.text(k) for k in ks))


def growth_strings(n):
    """all set partitions of n slots as restricted growth strings = all aliasing patterns"""
    out = [[]]
    for _ in range(n):
        out = [r + [c] for r in out for c in range((max(r) + 1 if r else 0) + 1)]
    return out


ALIAS_PATTERNS = [r for n in range(0, 7) for r in growth_strings(n)]      # 1+1+2+5+15+52+203 = 279


def alias_case(rng, pattern, sort='I'):
    """a Tuple whose slots repeat object pointers as `pattern` says (a,a,b / a,b,a / a,a,a / ...), against Array / List /
    Tuple of separately allocated equal values and against a neighbour (one element changed, shorter, longer, or the same
    values under another aliasing pattern); operand order shuffled, so the aliased Tuple is first and second argument"""
    pool = {'I': ['i1', 'i2', 'i3', 'i1', 'i4294967297'], 'S': ['s61', 's6162', 's', 's61', 'sff'],
            'F': ['f0000000000000000', 'f8000000000000000', 'f3ff0000000000000', 'f7ff0000000000000']}[sort]
    ncls = (max(pattern) + 1) if pattern else 0
    cv = [rng.choice(pool) for _ in range(ncls)]
    vals = [cv[c] for c in pattern]
    first = {}
    slots = []
    for i, c in enumerate(pattern):
        if c in first: slots.append('@%d' % first[c])
        else:
            first[c] = i; slots.append(cv[c])
    P = 'P(' + ','.join(slots) + ')'
    eqv = lambda vs: '%s(%s)' % (rng.choice('ALT'), ','.join(vs))
    r = rng.random()
    nb = list(vals)
    if r < .3 and nb: nb[rng.randrange(len(nb))] = rng.choice(pool)
    elif r < .5 and nb: nb.pop()
    elif r < .7: nb.append(rng.choice(pool))
    third = eqv(nb)
    if rng.random() < .25 and len(vals) >= 2:
        # the same values under another aliasing pattern (only equal values may share a pointer)
        f2, sl2 = {}, []
        for i, v in enumerate(vals):
            if v in f2 and rng.random() < .6: sl2.append('@%d' % f2[v])
            else:
                f2.setdefault(v, i); sl2.append(v)
        third = 'P(' + ','.join(sl2) + ')'
    ops = [P, eqv(vals), third]
    rng.shuffle(ops)
    return 'C Q(%s) %s' % (sort, ' '.join(ops))


def alias_cases(rng, n_extra):
    cs = [alias_case(rng, p, 'I') for p in ALIAS_PATTERNS]
    cs += [alias_case(rng, rng.choice(ALIAS_PATTERNS), rng.choice('ISF')) for _ in range(n_extra)]
    return cs


def grid_cases(rng, tier):
    """all ordered pairs of the boundary grids (third value drawn from the grid)"""
    out = []
    for a in INT_GRID:
        for b in INT_GRID:
            out.append('C I i%d i%d i%d' % (a, b, rng.choice(INT_GRID)))
    fg = FLOAT_GRID if tier != 'quick' else [x for x in FLOAT_GRID if rng.random() < .7 or x in (0, 1 << 63, 1, 0x7ff0000000000000, 0xfff0000000000000)]
    for a in fg:
        for b in fg:
            out.append('C F f%016x f%016x f%016x' % (a, b, rng.choice(FLOAT_GRID)))
    return out


def exhaustive_cases():
    """small-scope enumeration (thorough tier; bounded search, never the claim): ALL ordered triples of
    (a) the 13 strings of length <= 2 over {0x01, 0x80, 0xff}, (b) the 13 Int sequences of length <= 2 over
    {0, 2^32, -1} (container kind cycling A/L/T), (c) the 9 single-binding-or-empty Trees over keys {0, 2^32}
    and values {"", "a"} plus two 2-binding Trees"""
    import itertools
    out = []
    al = [0x01, 0x80, 0xff]
    strs = [b''] + [bytes([x]) for x in al] + [bytes([x, y]) for x in al for y in al]
    for a, b, c in itertools.product(strs, repeat=3):
        out.append('C S s%s s%s s%s' % (hexs(a), hexs(b), hexs(c)))
    iv = [0, 2**32, -1]
    seqs = [[]] + [[x] for x in iv] + [[x, y] for x in iv for y in iv]
    kinds = 'ALT'
    for n, (a, b, c) in enumerate(itertools.product(seqs, repeat=3)):
        t = lambda xs, k: '%s(%s)' % (k, ','.join('i%d' % x for x in xs))
        out.append('C Q(I) %s %s %s' % (t(a, kinds[n % 3]), t(b, kinds[(n // 3) % 3]), t(c, kinds[(n // 9) % 3])))
    trees = ['M()'] + ['M(i%d:s%s)' % (k, v) for k in (0, 2**32) for v in ('', '61')] + \
            ['M(i0:s,i4294967296:s61)', 'M(i4294967296:s61,i0:s)', 'M(i0:s61,i4294967296:s)', 'M(i0:s61,i0:s)']
    for a, b, c in itertools.product(trees, repeat=3):
        out.append('C M(I,S) %s %s %s' % (a, b, c))
    return out


# ------------------------------------------------------------------ verdict functions
def sgn(x):
    return (x > 0) - (x < 0)


def parse_field(f):
    """-> (cmp int | None, bits | None)"""
    if ':' not in f:
        return None, None
    c, bits = f.split(':')
    try:
        return int(c), bits
    except ValueError:
        return None, None


def aliased_flags(case):
    """per operand of a C case: is it a Tuple given with a repeated pointer (P(..@j..))"""
    return [t.startswith('P(') and '@' in t for t in case.split(' ')[2:]]


KNOWN_F3 = 'KNOWN tuple-repeated-pointer'


def oracle(case, impl, spec):
    sp = spec.split(' ')
    if all(x == '?' for x in sp) or spec in ('BADVALUE', 'BADCASE'):
        return None
    if 'CRASH' in impl or ' | TIMEOUT' in impl or 'EXIT(' in impl:
        return 'comparison did not return: %s' % impl[-40:]
    if impl == 'BADVALUE':
        return None        # value construction is not this property's business (correspondence reports it)
    im = impl.split(' ')
    if len(im) != len(sp):
        return 'transcript has %d fields, expected %d' % (len(im), len(sp))
    if case.startswith('K '):
        nk = len(case.split(' ')) - 2
        for n, (a, b) in enumerate(zip(im, sp)):
            if b != '?' and a != b:
                return 'key %d: %s lookup gives %s, the reference order demands %s' % (
                    n % (nk + 1), 'Tree' if n < nk else 'Table', a, b)
        return None
    names = ['a', 'b', 'c']
    m = [[None] * 3 for _ in range(3)]
    al = aliased_flags(case)
    known = stall = None
    for n, (a, b) in enumerate(zip(im, sp)):
        i, j = divmod(n, 3)
        if b == '?':
            continue
        if a == 'TIMEOUT':
            stall = stall or 'cmp(%s,%s) does not return (comparison loop still running after 150 ms of CPU time), the reference order demands %s' % (
                names[i], names[j], b.split(':')[0])
            continue
        if al[j]:
            # right operand is a Tuple with a repeated pointer: walked with Tuple_Iter_Next (open finding F3)
            if a.split(':')[0] != b.split(':')[0] and known is None:
                known = '%s: cmp(%s,%s) = %s, the reference order demands %s (right operand %s holds one pointer twice)' % (
                    KNOWN_F3, names[i], names[j], a.split(':')[0], b.split(':')[0], names[j])
            continue
        c, bits = parse_field(a)
        if c is None:
            return 'cmp(%s,%s) = %s, the reference order demands %s' % (names[i], names[j], a, b.split(':')[0])
        m[i][j] = sgn(c)
        want_c, want_bits = parse_field(b)
        # predicates must be the tests of cmp (checked against the implementation's own cmp value)
        mine = '%d%d%d%d%d%d' % (c == 0, c != 0, c < 0, c > 0, c <= 0, c >= 0)
        if bits != mine:
            return 'predicates eq,neq,lt,gt,le,ge of (%s,%s) = %s but cmp = %d' % (names[i], names[j], bits, c)
        if sgn(c) != want_c:
            return 'cmp(%s,%s) = %d, the reference order demands %d' % (names[i], names[j], c, want_c)
    # implementation alone: reflexivity, antisymmetry, transitivity
    for i in range(3):
        for j in range(3):
            if m[i][j] is None or m[j][i] is None: continue
            if i == j and m[i][j] != 0: return 'cmp(%s,%s) != 0' % (names[i], names[i])
            if m[i][j] != -m[j][i]: return 'sign cmp(%s,%s) != -sign cmp(%s,%s)' % (names[i], names[j], names[j], names[i])
            for k in range(3):
                if m[j][k] is None or m[i][k] is None: continue
                if m[i][j] <= 0 and m[j][k] <= 0 and m[i][k] != (0 if m[i][j] == 0 and m[j][k] == 0 else -1):
                    return 'not transitive: sign cmp(%s,%s) = %d, cmp(%s,%s) = %d but cmp(%s,%s) = %d' % (
                        names[i], names[j], m[i][j], names[j], names[k], m[j][k], names[i], names[k], m[i][k])
    return stall or known


def classify(case, impl, why):
    return 'tuple-repeated-pointer' if why and why.startswith(KNOWN_F3) else None


def corr(case, impl, model):
    if impl == model:
        return None
    if impl.endswith(' | TIMEOUT') or impl == ' | TIMEOUT':
        # the child stalled in one comparison: the model must say the same loop does not end there
        a, b = [x for x in impl[:-len(' | TIMEOUT')].split(' ') if x], model.split(' ')
        if a == b[:len(a)] and len(b) > len(a) and b[len(a)] == 'TIMEOUT':
            return None
        return 'implementation stalled after %d comparisons, model %s' % (len(a), ' '.join(b[:len(a) + 1]))
    a, b = impl.split(' '), model.split(' ')
    for n, (x, y) in enumerate(zip(a, b)):
        if x != y:
            return 'field %d: implementation %s / model %s' % (n, x, y)
    return 'length %d vs %d' % (len(a), len(b))


DISTINCT_INPUTS = set()


def nontrivial(case, impl):
    """a case is non-trivial when the three values are pairwise textually different and at least one
    off-diagonal comparison (or lookup) returned a result"""
    toks = case.split(' ')[2:]
    if len(set(toks)) < min(3, len(toks)):
        return False
    f = impl.split(' ')
    if case.startswith('K '):
        ok = any(x not in ('raise', 'none', '|') for x in f)
    else:
        ok = len(f) == 9 and any(':' in f[n] for n in range(9) if n % 4 != 0)
    if ok:
        DISTINCT_INPUTS.add(hash(case))
    return ok


# ------------------------------------------------------------------ shrinking of C cases (structural)
def parse_text(s):
    """inverse of Gen.text"""
    pos = [0]

    def hexrun():
        b = pos[0]
        while pos[0] < len(s) and s[pos[0]] in '0123456789abcdef': pos[0] += 1
        return s[b:pos[0]]

    def val():
        c = s[pos[0]]; pos[0] += 1
        if c == 'i':
            b = pos[0]
            while pos[0] < len(s) and s[pos[0]] in '-0123456789': pos[0] += 1
            return ('i', int(s[b:pos[0]]))
        if c == 'f': return ('f', int(hexrun(), 16))
        if c in 'st': return (c, bytes.fromhex(hexrun()))
        if c == 'b':
            b = pos[0]
            while s[pos[0]] != '.': pos[0] += 1
            tid = int(s[b:pos[0]]); pos[0] += 1
            return ('b', tid, bytes.fromhex(hexrun()))
        items = []
        pos[0] += 1                      # (
        while s[pos[0]] != ')':
            if s[pos[0]] == ',': pos[0] += 1
            x = val()
            if c == 'M':
                pos[0] += 1              # :
                items.append((x, val()))
            else:
                items.append(x)
        pos[0] += 1
        return (c, items)
    return val()


def simpler(v):
    """candidate replacements of v, of the same sort, each structurally smaller or more canonical"""
    k = v[0]
    if k == 'i':
        for c in (0, 1, -1, 2**32, -2**32, 2**31, v[1] // 2**32 * 2**32):
            if c != v[1] and abs(c) <= abs(v[1]): yield ('i', c)
    elif k == 'f':
        for c in (0, fbits(1.0), fbits(-1.0)):
            if c != v[1]: yield ('f', c)
    elif k in 'st':
        if v[1]:
            yield (k, v[1][:-1]); yield (k, v[1][1:])
    elif k == 'b':
        for i in range(len(v[2])):
            if v[2][i]: yield ('b', v[1], v[2][:i] + b'\0' + v[2][i + 1:])
    elif k in 'ALT':
        for i in range(len(v[1])):
            yield (k, v[1][:i] + v[1][i + 1:])
        for i in range(len(v[1])):
            for c in simpler(v[1][i]):
                yield Gen.norm_seq(k, v[1][:i] + [c] + v[1][i + 1:])
    else:
        for i in range(len(v[1])):
            yield ('M', v[1][:i] + v[1][i + 1:])
        for i in range(len(v[1])):
            a, b = v[1][i]
            for c in simpler(b):
                yield Gen.force_kinds(('M', v[1][:i] + [(a, c)] + v[1][i + 1:]))
            for c in simpler(a):
                yield Gen.force_kinds(('M', v[1][:i] + [(c, b)] + v[1][i + 1:]))


def ptuple_slots(txt):
    inner, out, depth, cur = txt[2:-1], [], 0, ''
    for ch in inner:
        depth += (ch == '(') - (ch == ')')
        if ch == ',' and depth == 0:
            out.append(cur); cur = ''
        else:
            cur += ch
    return out + [cur] if inner else []


def simpler_ptuple(txt):
    """drop the last slot of P(...) (keeps every @j valid)"""
    sl = ptuple_slots(txt)
    if sl:
        yield ('raw', 'P(' + ','.join(sl[:-1]) + ')')


def shrink_c(case, fails, budget=400):
    t = case.split(' ')
    try:
        vals = [('raw', x) if x.startswith('P(') else parse_text(x) for x in t[2:]]
    except Exception:
        return case
    g = Gen(None)
    _text, _simpler = g.text, simpler
    g.text = lambda v: v[1] if v[0] == 'raw' else _text(v)
    changed = True
    while changed and budget > 0:
        changed = False
        for p in range(len(vals)):
            for c in (simpler_ptuple(vals[p][1]) if vals[p][0] == 'raw' else simpler(vals[p])):
                budget -= 1
                if budget <= 0: break
                cand = vals[:p] + [c] + vals[p + 1:]
                txt = ' '.join(t[:2] + [g.text(v) for v in cand])
                if fails(txt):
                    vals, changed = cand, True
                    break
            if changed or budget <= 0: break
    return ' '.join(t[:2] + [g.text(v) for v in vals])


class Diff(vlib.Differential):
    def _fails_oracle(self, case):
        i = self.run_impl([case]); sp = self.run_spec([case])
        why = self.oracle(case, i[0], sp[0]) if i and sp else None
        return bool(why) and not why.startswith(KNOWN_F3)       # never shrink a violation into the known finding

    def shrink(self, case, fails):
        if case.startswith('C '):
            # keep the KIND of failure while shrinking: a wrong comparison result stays a wrong result
            # (it may not turn into a stalled comparison or into the known finding)
            i = self.run_impl([case]); sp = self.run_spec([case])
            why0 = self.oracle(case, i[0], sp[0]) or ''
            stall0 = 'does not return' in why0 or 'did not return' in why0

            def same_kind(c):
                i = self.run_impl([c]); sp = self.run_spec([c])
                why = self.oracle(c, i[0], sp[0]) if i and sp else None
                if not why or why.startswith(KNOWN_F3):
                    return False
                return ('does not return' in why or 'did not return' in why) == stall0
            return shrink_c(case, same_kind if fails == self._fails_oracle else fails)
        return vlib.Differential.shrink(self, case, fails)


def split(case):
    t = case.split(' ')
    if t[0] == 'K':
        return ' '.join(t[:2]), t[2:]
    return case, []


def join(pre, toks):
    return pre + (' ' + ' '.join(toks) if toks else '')


CORPUS = [
    # D4 (fixed 808a1b4): differences that are multiples of 2^32, or >= 2^31, or overflow int64
    'C I i4294967296 i0 i-4294967296',
    'C I i2147483648 i0 i-2147483648',
    'C I i9223372036854775807 i-9223372036854775808 i0',
    'C I i4611686018427388014 i110 i109',
    'K I i109 i110 i4611686018427388014',
    'K I i0 i4294967296 i-4294967296 i8589934592',
    'C F f0000000000000000 f8000000000000000 f0000000000000001',
    'C F f7ff0000000000000 ffff0000000000000 f7fefffffffffffff',
    'C F f0000000000000001 f0000000000000002 f8000000000000001',
    'C S s6162 s61 s61ff',
    'C S s s80 s7f',
    'C Q(I) A(i1,i2) L(i1,i2) T(i1,i2,i0)',
    'C M(I,S) M(i1:s61,i0:s62) M(i0:s62,i1:s61) M(i0:s62)',
    'C B1.3 b1.000102 b1.0001ff b1.00017f',
    'C M(I,S) M(i1:s61) M(i1:s62) M(i1:s61,i0:s60)',
    'C Q(I) L(i2) L(i1) L(i1,i5)',
    'C Q(S) A(s62,s61) A(s61,s62) A(s62)',
    'C Q(F) T(f3ff0000000000000) T(f3fe0000000000000) T(f3ff0000000000001)',
    'C Q(Y) T(t496e74) T(t496e) T(t496e74,t466c6f6174)',
    # Tuples holding one pointer in several slots, as first argument (index walk: correct; seeded C09-r4-2) and as
    # second argument / against themselves (walked with Tuple_Iter_Next: open finding F3, reported as KNOWN-FINDING)
    'C Q(I) P(i1,@0,i2) A(i1,i1,i2) L(i1,i1)',
    'C Q(I) P(i1,i2,@0) A(i1,i2,i1) T(i1,i2,i1,i5)',
    'C Q(I) A(i1,i1,i3) P(i1,@0,@0) L(i1,i1,i1)',
    'C Q(S) L(s61,s62,s62) P(s61,s62,@1) A(s61,s62)',
]


def run(ctx):
    quick = ctx.tier == 'quick'
    ctx.cov['rule'] = (
        'cases are triples of values of one sort (Int, Float, String, Type, plain struct, sequences Array/List/Tuple of a sort, '
        'Tree of two sorts; nesting depth <= 2) and all nine ordered cmp calls plus eq/neq/lt/gt/le/ge are observed; streams: corpus, '
        'all ordered pairs of a %d-value Int grid (0, +-1, +-2^31(+-1), +-2^32(+-1), 2^62, MIN, MAX, pairs differing by k*2^32) and of a '
        '%d-pattern Float grid (signed zeros, denormals, min/max normal, neighbours of 1.0 and 2^53, infinities; bit patterns), random triples where the '
        'second/third value is a mutation of the first (equal under another representation: -0.0/0.0, Array/List/Tuple with the same elements, '
        'Tree built in another order; proper prefix; one byte/element changed; +-2^31, 2^32, 2^63), strings over bytes incl. 0x80-0xff; '
        '"alias" cases: a Tuple whose slots repeat object pointers (ALL 279 aliasing patterns = set partitions of 0..6 slots, plus random ones over '
        'Int/String/Float values) against separately allocated Array/List/Tuple of equal values and a neighbour, operand order shuffled; the aliased '
        'Tuple as FIRST argument must order by its values (index walk), as SECOND argument it is walked with Tuple_Iter_Next = open finding '
        'tuple-repeated-pointer (reported as KNOWN-FINDING, any other disagreement is a violation); a comparison still looping after 150 ms CPU time is a stalled case = failure; '
        '"K" cases set 2-12 boundary keys into a Tree and look every one up again; "?" cases mix sorts (raise behaviour, correspondence only). '
        'non-trivial = three pairwise different value texts and at least one off-diagonal comparison (or lookup) returned a result; '
        'distinct_nontrivial = number of distinct non-trivial INPUTS (case texts); a transcript here is only nine signs, so the number of '
        'distinct transcripts is reported separately as distinct_transcripts' % (len(INT_GRID), len(FLOAT_GRID)))
    ctx.assumptions += [
        'C text tied by correspondence only: extracted Gallina model (coq/Values.v) vs the library built from the working tree, '
        'plus the shape patterns of tools/genx_cmp.py (Int_Cmp variant, Float_Cmp expression, the loop of the four container comparisons, '
        'the predicate definitions and the default memcmp rule of Cmp.c)',
        'libc strcmp/memcmp: sign of the first differing unsigned byte (prefix shorter first)',
        'double arithmetic is IEEE-754 binary64 round-to-nearest-even without flush-to-zero (x86-64 SSE2 default); modelled by Flocq Bminus',
        'iteration of Array/List/Tuple yields the elements in index order and Tree yields descending keys (properties C03/C04/C11)',
    ]
    ctx.coq()
    drv = ctx.build_driver('Cmp')
    h = ctx.build_harness('val_cmp.c')
    henv = dict(os.environ, H_TIMEOUT='5')       # whole-case watchdog; each comparison has its own 150 ms CPU-time guard (field TIMEOUT)
    run_impl = lambda cs: ctx.run_lines(h, cs, env=henv)[1]
    # this property's own open findings (findings.d/C09.json; known_findings.json is assembled from it)
    try:
        mine = json.load(open(os.path.join(vlib.VERIF, 'findings.d', 'C09.json')))
        have = {(f.get('property'), f.get('signature')) for f in ctx.findings}
        ctx.findings += [f for f in mine if f.get('status') == 'open' and (f['property'], f.get('signature')) not in have]
    except Exception as e:
        ctx.notes.append('findings.d/C09.json unreadable: %r' % e)
    run_model = lambda cs: ctx.run_lines(drv, cs, args=['model'])[1]
    run_spec = lambda cs: ctx.run_lines(drv, cs, args=['spec'])[1]
    d = Diff(ctx, 'cmp', run_impl, run_model, run_spec, oracle, corr, nontrivial, split, join, classify)
    rp = os.environ.get('VERIF_REPLAY')
    if rp:
        r = json.load(open(rp))
        d.feed([r['case']] if 'case' in r else CORPUS)
        for x in d.oracle_fail + d.corr_fail:
            print('REPLAY: %s\n  impl  %s\n  model %s\n  spec  %s' % (x[4], x[1], x[2], x[3]))
        d.report()
        return
    d.feed(CORPUS, 'corpus')
    g = Gen(ctx.rng)
    hist = {}

    def batch(n):
        cs = []
        for i in range(n):
            r = ctx.rng.random()
            if r < .08:
                cs.append(cross_case(g)); key = '?'
            elif r < .16:
                s = ctx.rng.choice([('I',), ('I',), ('F',), ('S',), ('Q', ('I',)), ('Q', ('S',)), ('B', 1, 3)])
                cs.append(key_case(g, s)); key = 'K ' + g.sort_text(s)
            else:
                s = ctx.rng.choice(SCALARS) if r < .5 else random_sort(ctx.rng)
                cs.append(g.triple(s)); key = s[0]
            hist[key] = hist.get(key, 0) + 1
        return cs

    def real_failures():
        return [x for x in d.oracle_fail if not x[4].startswith(KNOWN_F3)]

    def feed_alias(n_extra):
        cs = alias_cases(ctx.rng, n_extra)
        hist['alias'] = hist.get('alias', 0) + len(cs)
        for i in range(0, len(cs), 60):
            d.feed(cs[i:i + 60])
            if real_failures():          # stop at the first concrete failure
                break

    feed_alias(150 if quick else 6000)
    grid = grid_cases(ctx.rng, ctx.tier)
    hist['grid'] = len(grid)
    for i in range(0, len(grid), 2000):
        d.feed(grid[i:i + 2000])
    if not quick:
        ex = exhaustive_cases()
        for i in range(0, len(ex), 3000):
            d.feed(ex[i:i + 3000])
        hist['exhaustive'] = len(ex)
        ctx.cov['exhaustive'] = ('bounded search, not the claim: all %d ordered triples of the 13 strings of length <= 2 over bytes '
                                 '{01,80,ff}, of the 13 Int sequences of length <= 2 over {0, 2^32, -1} (kinds cycling), and of 9 small '
                                 'Trees over keys {0, 2^32}: no disagreement' % len(ex))
    n = 9000 if quick else 1000000
    for i in range(0, n, 3000):
        d.feed(batch(min(3000, n - i)))
    ctx.cov['case_histogram'] = hist

    def extra(dd):
        feed_alias(3000)
        if not real_failures():
            dd.feed(batch(30000))
    if getattr(ctx, 'proof_broken', None) and not real_failures():
        # broken proof obligation / source shape: directed search (aliasing patterns first, then 3x volume)
        extra(d)
    d.report(extra)
    ctx.cov['distinct_transcripts'] = len(ctx._distinct)
    ctx._distinct = set(DISTINCT_INPUTS)          # what finish() prints: distinct non-trivial inputs
    ctx.cov['distinct_nontrivial'] = len(DISTINCT_INPUTS)
