"""C05 — containers own their elements: each is finalised exactly once.

Implementation side: harness/own_ledger.c (element type Probe with its own constructor,
assignment, destructor and heap memory; a ledger of tokens).  Model side: coq/Ownership.v
(extracted), theorems in coq/OwnershipProofs.v / Properties_C05.v.

oracle (the property itself, decided on the implementation transcript + the abstract
contents the model predicts):
  * no token is destructed twice, no unknown token is destructed (flags DBL / UNK)
  * no element still contained has a dead token (flag HELDDEAD), all contained tokens
    are pairwise distinct across ALL containers (no sharing between a copy and its source)
  * number of live tokens == number of tokens held by containers (nothing leaked, nothing
    dropped) == sum of the container lengths minus zero-filled elements
  * every container holds exactly the values the abstract semantics predicts (so mutating or
    deleting one side of a copy/assign never changes the other)
correspondence (model vs implementation, exact): per operation the number of constructions,
the multiset of destructed values, the number of token-less destructs, the live count."""
import os, json, re
import vlib

SEQ, MAP = 'ALEF', 'TRGH'      # E F G H: same containers over the other probe element types


def gen_case(rng, maxops):
    ops, kinds = [], []       # kinds[i] in 'A','L','T','R','B', or None when deleted
    lens = []                 # tracked approximately for index choice (exact for valid ops)
    vals = lambda: rng.choice([0, 1, 2, 3, 5, 7, 11, 23, 53, 55, 110, 101, -1, 2**40])
    small = rng.random() < .5

    def v():
        return rng.randrange(0, 4) if small else vals()

    def new(kind=None):
        k = kind or rng.choice('AELFTGRHB')
        if k in SEQ:
            n = rng.choice([0, 0, 1, 2, 3, 6, 10])
            ops.append(k + ','.join(str(v()) for _ in range(n)))
            lens.append(n)
        elif k in MAP:
            n = rng.choice([0, 0, 1, 2, 4, 7])
            ops.append(k + ','.join('%d:%d' % (v(), v()) for _ in range(n)))
            lens.append(n)
        else:
            ops.append('B%d' % v()); lens.append(1)
        kinds.append(k)

    new(rng.choice('ALTREFGH'))
    for _ in range(rng.randrange(1, maxops)):
        live = [i for i, k in enumerate(kinds) if k]
        if not live or (rng.random() < .08 and len(kinds) < 12):
            new(); continue
        c = rng.choice(live); k = kinds[c]
        r = rng.random()
        if k in SEQ:
            n = lens[c]
            if rng.random() < .06:           # a failing operation: wrong-typed element; nothing may change
                ops.append(rng.choice(['w%d' % c, 'W%d,%d' % (c, rng.randrange(0, (n or 0) + 1)), 'v%d,%d' % (c, rng.randrange(0, (n or 0) + 1))]))
            elif r < .22: ops.append('p%d,%d' % (c, v())); lens[c] += 1
            elif r < .32:
                ops.append('o%d' % c); lens[c] = max(0, n - 1)
            elif r < .42:
                if rng.random() < .3:       # signed / refused indices: -1 .. -(n+2), n+1, far away
                    base = n + 1 if k in 'AE' else n
                    i = rng.choice([-1, -base, -base - 1, -(base // 2) - 1, n + 1, -2**40, 2**40, -rng.randrange(1, base + 3)])
                    ok = (0 <= i <= n) if i >= 0 else (base + i >= 0)
                    if k in 'LF' and i >= 0: ok = (i == 0 or i < n)
                    ops.append('i%d,%d,%d' % (c, i, v())); lens[c] += 1 if ok else 0
                else:
                    i = rng.choice([0, n, n // 2, rng.randrange(0, n + 1)]); ops.append('i%d,%d,%d' % (c, i, v())); lens[c] += 1
            elif r < .50 and (n or rng.random() < .2):
                if rng.random() < .3 or not n:
                    i = rng.choice([-1, -n, -n - 1, -(n // 2) - 1, n, -2**40, 2**40, -rng.randrange(1, n + 3)])
                    ok = (0 <= i < n) if i >= 0 else (n + i >= 0)
                    ops.append('x%d,%d' % (c, i)); lens[c] -= 1 if ok else 0
                else:
                    i = rng.choice([0, n - 1, rng.randrange(0, n)]); ops.append('x%d,%d' % (c, i)); lens[c] -= 1
            elif r < .58 and n:
                i = rng.randrange(0, n) if rng.random() < .7 else rng.choice([-1, -n, -n - 1, n, -rng.randrange(1, n + 3)])
                ops.append('s%d,%d,%d' % (c, i, v()))
            elif r < .64:
                ops.append('r%d,%d' % (c, v())); lens[c] = None   # unknown whether present
            elif r < .70:
                ds = [d for d in live if d != c and kinds[d] in SEQ]
                if ds:
                    d = rng.choice(ds); ops.append('c%d,%d' % (c, d))
                    lens[c] = None if lens[d] is None or n is None else n + lens[d]
            elif r < .78:
                m = rng.choice([0, 0, 1, max(0, (n or 0) - 1), (n or 0) + 3, (n or 0) // 2])
                ops.append('z%d,%d' % (c, m))
                if n is not None:
                    lens[c] = m if (m < n or k in 'LF') else n
                    if m == 0: lens[c] = 0
            elif r < .82 and k in 'AE': ops.append('q%d' % c)
            elif r < .88:
                ds = [d for d in live if d != c and kinds[d] in SEQ]
                if ds:
                    d = rng.choice(ds); ops.append('a%d,%d' % (c, d)); lens[c] = lens[d]
            elif r < .94 and len(kinds) < 14:
                ops.append('y%d' % c); kinds.append(k); lens.append(n)
            else:
                ops.append('d%d' % c); kinds[c] = None
            if lens[c] is None:
                lens[c] = 0 if kinds[c] is None else 3      # harmless guess: only steers index choice
        elif k in MAP:
            if rng.random() < .06: ops.append('u%d,%d' % (c, v()))       # failing: wrong-typed value
            elif r < .40: ops.append('m%d,%d,%d' % (c, v(), v()))
            elif r < .60: ops.append('n%d,%d' % (c, v()))
            elif r < .66: ops.append('z%d,0' % c)
            elif r < .80:
                ds = [d for d in live if d != c and kinds[d] in MAP]
                if ds: ops.append('a%d,%d' % (c, rng.choice(ds)))
            elif r < .92 and len(kinds) < 14:
                ops.append('y%d' % c); kinds.append(k); lens.append(0)
            else:
                ops.append('d%d' % c); kinds[c] = None
        else:
            if r < .6: ops.append('d%d' % c); kinds[c] = None
            else: new('B')
    if rng.random() < .6:       # teardown: delete every container, the ledger must end empty
        for i, k in enumerate(kinds):
            if k: ops.append('d%d' % i)
    return ' '.join(ops)


CELL = re.compile(r'(-?\d+)\.(\d+)')


def strip_tokens(dump):
    return CELL.sub(lambda m: m.group(1), dump)


def parse_impl(line):
    steps = []
    for part in line.split(' | '):
        f = part.split(';')
        if len(f) != 7:
            steps.append({'bad': part}); continue
        steps.append({'out': f[0], 'C': f[1], 'D': f[2], 'Z': f[3], 'live': f[4], 'dump': f[5], 'flags': f[6]})
    return steps


def oracle(case, impl, spec):
    si, ss = parse_impl(impl), spec.split(' | ')
    if len(si) != len(ss):
        return 'implementation transcript has %d steps, expected %d (crash/timeout?): ...%s' % (len(si), len(ss), impl[-60:])
    for n, (a, b) in enumerate(zip(si, ss)):
        if 'bad' in a:
            return 'step %d: %s' % (n, a['bad'][-80:])
        if a['flags']:
            return 'step %d: ledger flags %s (DBL = destructed twice, UNK = unknown token, HELDDEAD = contained element already finalised)' % (n, a['flags'])
        if a['out'].endswith('Error') and (a['C'] != 'C0' or a['D'] != 'D' or a['Z'] != 'Z0'):
            return 'step %d raised %s but constructed/destructed elements (%s %s %s)' % (n, a['out'], a['C'], a['D'], a['Z'])
        toks = [int(t) for _, t in CELL.findall(a['dump']) if t != '0']
        if len(toks) != len(set(toks)):
            return 'step %d: the same element token is held twice (shared between containers or duplicated): %s' % (n, a['dump'])
        live = int(a['live'].split('=')[1])
        if live != len(toks):
            return 'step %d: %d live elements but containers hold %d (leak or lost element)' % (n, live, len(toks))
        want = b.split(';')[4]
        if strip_tokens(a['dump']) != want:
            return 'step %d: contents %s, abstract semantics says %s' % (n, strip_tokens(a['dump']), want)
    return None


def corr(case, impl, model):
    si, sm = parse_impl(impl), model.split(' | ')
    if len(si) != len(sm):
        return 'length %d vs %d' % (len(si), len(sm))
    for n, (a, b) in enumerate(zip(si, sm)):
        if 'bad' in a:
            return 'step %d: %s' % (n, a['bad'][-80:])
        got = ';'.join([a['C'], a['D'], a['Z'], a['live'], strip_tokens(a['dump'])])
        if got != b:
            return 'step %d: implementation %s / model %s' % (n, got, b)
    return None


def nontrivial(case, impl):
    # at least one destruction happened and at least two containers coexisted
    return bool(re.search(r';D-?\d', impl)) and '/1' in impl


def split(case):
    return '', case.split(' ')


def join(pre, toks):
    return ' '.join(toks)


CORPUS = [
    'A1,2,3 p0,4 o0 i0,1,9 x0,0 s0,0,7 r0,2 L5,5 c0,1 z0,2 q0 a1,0 y0 d0 d1 d2',
    'T1:2,3:4 m0,1,9 m0,5,5 n0,3 R1:2 m1,1,3 a1,0 y1 z0,0 d0 d1 d2 B7 d3',
    'L1 z0,4 s0,2,5 o0 y0 z0,0',
    'T55:1,110:2 m0,55,3 n0,55 m0,165,4 y0 n0,110 d0 d1',            # D1 witness: same-home keys, update the older
    'T0:0 z0,0 m0,2,2 m0,2,3 d0',                                       # D2 witness: emptied table keeps working
    'A1,2,3 i0,7,9 i0,-9,9 x0,5 p0,4 d0',                               # D13: failed push_at must not change the array
    'L1,2 i0,5,9 i0,2,9 d0',                                            # D20: failed List push_at must not leak its node
    'A1,1,1,1,1,1,1,1,1,1,1,1 x0,0 x0,0 x0,0 x0,0 x0,0 x0,0 x0,0 x0,0 x0,0 x0,0 x0,0 x0,0',
    'R5:5,3:3,8:8,1:1,4:4,7:7,9:9,2:2,6:6 n0,5 n0,3 n0,8 y0 n0,1 n1,9 d0 d1',   # two-children deletes (predecessor copy)
    'T0:0,5:5,10:10,15:15,20:20 n0,0 n0,10 m0,25,1 m0,5,9 y0 z0,0 d1 d0',       # collisions mod 5, backward shift, rehash
    'H5:5,3:3,8:8,1:1,4:4,7:7,9:9,2:2,6:6 n0,5 n0,3 n0,8 y0 n0,1 n1,9 d0 d1',   # same, key type wider than value type
    'G0:0,5:5,10:10,15:15,20:20 n0,0 n0,10 m0,25,1 m0,5,9 y0 a0,1 z0,0 d1 d0',
    'E1,2,3,4,5,6,7 x0,0 i0,3,9 q0 F1,2 a1,0 c0,1 z0,2 y1 d0 d1 d2',            # wide elements: memmove / realloc / sort swaps
    'R1:1,2:2,3:3 H9:9 a1,0 a0,1 m0,2,5 n1,1 d0 d1',                            # assign between maps of different element types
    'A1,2 w0 W0,1 v0,0 L3 w1 W1,0 v1,0 F7,8 w2 T1:1 u3,1 u3,9 R2:2 u4,2 d0 d1 d2 d3 d4',       # failing operations change nothing
]


def run(ctx):
    quick = ctx.tier == 'quick'
    ctx.cov['rule'] = ('seeded histories over up to 14 coexisting containers (Array, List, Table, Tree of an element type with its own '
                       'constructor/assign/destructor owning heap memory; Box) with push/pop/push_at/pop_at/set/rem/concat/resize/sort/assign '
                       '(same and different kinds)/copy/del/map set/map rem; small value alphabets force key collisions and replacements; '
                       'a case is non-trivial when at least one element was destructed while two or more containers coexisted; '
                       'distinct = distinct implementation transcripts')
    ctx.assumptions += ['ownership is modelled at the level of construct/destruct events per operation (coq/Ownership.v); byte-wise internal '
                        'moves are invisible to that model and are covered by the ledger run against the real library (growth, shrink, '
                        'rehash, displacement, rotation, predecessor copy and sort swaps all occur in the generated histories) and by '
                        'the slot/tree/sequence models of C02-C04',
                        'Box is exercised stand-alone (new_root(Box, new(T,..)) / del_root); containers of Box share pointees on copy by '
                        'design of Box_Assign and are outside the generated histories']
    ctx.coq()
    drv = ctx.build_driver('Ownership')
    h = ctx.build_harness('own_ledger.c')
    run_impl = lambda cs: ctx.run_lines(h, cs)[1]
    run_model = lambda cs: ctx.run_lines(drv, cs, args=['model'])[1]
    d = vlib.Differential(ctx, 'ownership', run_impl, run_model, run_model, oracle, corr, nontrivial, split, join)
    rp = os.environ.get('VERIF_REPLAY')
    if rp:
        r = json.load(open(rp))
        d.feed([r['case']] if 'case' in r else CORPUS)
        for x in d.oracle_fail + d.corr_fail:
            print('REPLAY: %s\n  impl  %s\n  model %s' % (x[4], x[1], x[2]))
        d.report()
        return
    d.feed(CORPUS, 'corpus')
    n = 1500 if quick else 60000
    maxops = 50 if quick else 120
    cases = [gen_case(ctx.rng, maxops if i % 4 else 10) for i in range(n)]
    hist = {}
    for c in cases:
        for t in c.split(' '):
            hist[t[0]] = hist.get(t[0], 0) + 1
    ctx.cov['operation_histogram'] = hist
    for i in range(0, n, 2000):
        d.feed(cases[i:i + 2000])

    def extra(dd):
        dd.feed([gen_case(ctx.rng, 40) for _ in range(10 * min(n, 3000))])
    d.report(extra)
