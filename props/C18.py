"""C18 — build configurations agree on every in-contract program.

The Coq part (coq/Config.v, ConfigProofs.v, Properties_C18.v) proves configuration independence for an
abstract interpreter whose only configuration-dependent construct is a switch-guarded error test, for
the sequence API of Array.c written in it, and audits the guarded blocks of the C source.
Optimisation levels, header layout, method cache and collector are outside that model: here the
correspondence IS the check — the same in-contract programs run on the library built in every
configuration and the transcripts must be byte-identical."""
import os, json, itertools, time, re
from concurrent.futures import ThreadPoolExecutor
import vlib

SEP = '\x1f'

# (ndebug, nocache, ngc, opt)
def cfg_tag(c):
    t = '%s_%s_%s_%s' % ('N' if c[0] else 'd', 'C0' if c[1] else 'c', 'G0' if c[2] else 'g', c[3])
    return t + ('@' + c[4] if len(c) > 4 else '')


def cfg_flags(c):
    f = ['-' + c[3]]
    if c[0]: f.append('-DCELLO_NDEBUG')
    if c[1]: f.append('-DCELLO_CACHE=0')
    if c[2]: f.append('-DCELLO_NGC')
    return f


# quick: a pairwise covering array of {checks} x {cache} x {gc} x {O0,O2,O3} (every pair of settings of two
# different switches occurs together), including the all-on and the all-off build
QUICK = [(0, 0, 0, 'O0'), (1, 1, 1, 'O0'), (0, 1, 1, 'O2'), (1, 0, 0, 'O2'), (0, 0, 1, 'O3'), (1, 1, 0, 'O3')]
ALL = [(n, c, g, o) for o in ('O0', 'O2', 'O3') for n in (0, 1) for c in (0, 1) for g in (0, 1)]
# beyond the property's matrix: further optimisation levels and a second compiler (when installed)
EXTRA_QUICK = [(0, 0, 0, 'O2', 'clang'), (1, 1, 1, 'Os')]
EXTRA_THOROUGH = [(0, 0, 0, 'O1'), (1, 1, 1, 'O1'), (0, 0, 0, 'Os'), (1, 1, 1, 'Os'),
                  (0, 0, 0, 'O0', 'clang'), (0, 0, 0, 'O2', 'clang'), (0, 0, 0, 'O3', 'clang'), (1, 1, 1, 'O2', 'clang'),
                  (1, 0, 0, 'O3', 'clang'), (0, 1, 1, 'O1', 'clang')]

# ---------------------------------------------------------------------------------------------- workload generator
NREG = 10
CTORS = ['ni', 'nf', 'ns', 'np', 'na', 'na', 'na', 'nl', 'nl', 'nt', 'nt', 'nr', 'nr', 'nu', 'nR', 'ng', 'nn', 'nn']
MUT = ['pu', 'pu', 'ap', 'pa', 'pa', 'po', 'pt', 'se', 'se', 'rm', 'rm', 'so', 'rs', 'cl', 'cc', 'as', 'sw', 'cp', 'el', 'el', 'el', 'el']
OBS = ['ge', 'ge', 'me', 'ln', 'ha', 'it', 'it', 'ib', 'sl', 'rv', 'zp', 'en', 'fi', 'ma', 'ty', 'sh', 'de', 'ci', 'cm', 'lk', 'iq']
FREE = ['tc', 'tc', 'tn', 'rg', 'fm', 'fm', 'fm', 'sn', 'ca', 'gc', 'gc', 'D', 'D', 'dr', 'dr', 'dl', 'dl', 'th', 'mx', 'fl', 'hp', 'tf', 'tf', 'rw', 'sk', 'sk', 'mm', 'mm', 'mm', 'hv', 'hv', 'rt', 'dy', 'dy']


def rint(rng):
    r = rng.random()
    if r < .6: return rng.randrange(0, 30)
    if r < .85: return rng.randrange(-40, 200)
    return rng.choice([0, 1, -1, 7, 255, 256, 4095, -4096, 1000003, -99991, 2**31 - 1, -2**31])


TCODE = ['Int', 'Float', 'String', 'Pt']


def pick_t(rng):
    return rng.choices([0, 1, 2, 3], [5, 2, 3, 2])[0]


def gen_ctor(rng, kinds, r=None):
    """one constructor token; `kinds` (register -> kind, mirrors what the harness will build) is updated"""
    r = rng.randrange(NREG) if r is None else r
    op = rng.choice(CTORS)
    a = [rint(rng) for _ in range(4)]
    if op in ('na', 'nl'):
        t = pick_t(rng); a[0] = t + 4 * rng.randrange(0, 3)
        a[1] = rng.choice([0, 1, 2, 3, 5, 8, 13, 23, rng.randrange(0, 24)])
        kinds[r] = ('Array:' if op == 'na' else 'List:') + TCODE[t]
    elif op in ('nt', 'nr'):
        k = rng.choices([0, 1, 2], [4, 4, 2])[0]; t = pick_t(rng)
        a[0] = k + 3 * rng.randrange(0, 3); a[1] = t + 4 * rng.randrange(0, 3)
        a[2] = rng.choice([0, 1, 2, 4, 5, 6, 11, 12, 23, rng.randrange(0, 24)])
        kinds[r] = ('Table:' if op == 'nt' else 'Tree:') + ('Int', 'String', 'Pt')[k] + ':' + TCODE[t]
    elif op == 'nn':
        o = rng.randrange(4); v = rng.randrange(4)
        a[0] = o + 4 * rng.randrange(0, 3); a[1] = v + 4 * rng.randrange(0, 3); a[2] = rng.choice([0, 1, 2, 3, 5])
        vn = ('Array', 'List', 'Table', 'Tuple')[v]
        kinds[r] = ('Array:' + vn, 'List:' + vn, 'Table:String:' + vn, 'Tree:Int:' + vn)[o]
    elif op == 'nR':
        src = [q for q, kd in kinds.items() if kd != 'Ref' and q != r]
        if not src:
            return gen_ctor(rng, kinds, r)
        a[0] = rng.choice(src); kinds[r] = 'Ref'
    else:
        kinds[r] = {'ni': 'Int', 'nf': 'Float', 'ns': 'String', 'np': 'Pt', 'nu': 'Tuple', 'ng': 'Range'}[op]
    return '%s:%d,%d,%d,%d,%d' % (op, r, a[0], a[1], a[2], a[3])


COPYABLE = ('Int', 'Float', 'String', 'Pt', 'Array', 'List', 'Table', 'Tree')
SCALAR_OK = ('as', 'sw', 'cp', 'cm', 'ha', 'sh', 'ty', 'iq')


def aim(rng, kinds, op, reg, focus):
    """prefer a register on which the operation does something"""
    if op in SCALAR_OK or rng.random() < .1:
        return reg
    if op == 'el':
        want = ('Array', 'List', 'Table', 'Tree', 'Tuple')
    elif op == 'de':
        want = ('Ref',)
    elif op == 'lk':
        want = ('Int',)
    elif op == 'ci':
        want = ('Int', 'Float', 'String', 'Pt')
    elif op in ('rv',):
        want = ('List',)
    elif op in ('so',):
        want = ('Array', 'Array', 'Tuple')
    elif op in ('ib',):
        want = ('List', 'Table', 'Tree', 'Tuple')
    elif op in ('cc', 'ap', 'rs', 'cl'):
        want = ('Array', 'List', 'String', 'Table', 'Tree', 'Tuple')
    elif op in ('sl', 'en', 'ma', 'zp', 'xs'):
        want = ('Array', 'List')
    elif op == 'xb':
        want = ('Array',)
    elif op == 'xz':
        want = ('List',)
    elif op == 'xr':
        want = ('String',)
    elif op == 'xl':
        want = ('Float', 'String')
    elif op in ('fi',):
        want = ('Array', 'List', 'Table', 'Tree')
    elif op in ('po', 'pt', 'pa'):
        want = ('Array', 'List', 'Tuple')
    else:
        want = ('Array', 'List', 'Table', 'Tree', 'Tuple', 'String')
    c = [q for q, kd in kinds.items() if kd.split(':')[0] in want]
    if not c:
        return reg
    return focus if (focus in c and rng.random() < .5) else rng.choice(c)


EXTENDED = os.environ.get('C18_EXTENDED', '1') != '0'     # the repairs these operations depend on are on main now
if EXTENDED:
    # operations that are in contract but hit defects of other properties still open on this head; to be switched on
    # once the repairs of C07 (D3), C11 (D9, D11, D12, F4), C15 (D7, D8, F6) and C16 (D6) are merged
    OBS += ['xb', 'xs', 'xs', 'xz', 'xl']
    MUT += ['xr']
    FREE += ['xt', 'xn', 'xg', 'xg']


def gen_wl(rng, nops):
    toks, kinds = [], {}
    for _ in range(rng.randrange(3, 8)):
        toks.append(gen_ctor(rng, kinds))
    focus = rng.choice(list(kinds))
    for _ in range(nops):
        if not kinds:
            toks.append(gen_ctor(rng, kinds)); continue
        if focus not in kinds:
            focus = rng.choice(list(kinds))
        x = rng.random()
        reg = focus if rng.random() < .5 else (rng.choice(list(kinds)) if rng.random() < .9 else rng.randrange(NREG))
        if x < .12:
            toks.append(gen_ctor(rng, kinds))
        elif x < .47:
            op = rng.choice(MUT)
            reg = aim(rng, kinds, op, reg, focus)
            if op in ('cc', 'as', 'sw'):
                same = [q for q, kd in kinds.items() if kd == kinds.get(reg) and q != reg]
                kd0 = kinds.get(reg, '')
                if not same and kd0.split(':')[0] in COPYABLE and rng.random() < .7:
                    y0 = rng.choice([q for q in range(NREG) if q != reg])
                    toks.append('cp:%d,%d' % (reg, y0)); kinds[y0] = kd0
                    toks.append('%s:%d,%d,%d' % (rng.choice(['pu', 'se', 'po', 'ap']), y0, rint(rng), rint(rng)))
                    same = [y0]
                y = rng.choice(same) if same and rng.random() < .85 else rng.randrange(NREG)
                toks.append('%s:%d,%d' % (op, reg, y))
            elif op == 'el':
                # prefer containers whose elements can reallocate (Strings, nested containers)
                c = [q for q, kd in kinds.items() if kd.split(':')[0] in ('Array', 'List', 'Table', 'Tree')
                     and kd.split(':')[-1] in ('String', 'Array', 'List', 'Table', 'Tuple')]
                if c and rng.random() < .7:
                    reg = rng.choice(c)
                toks.append('el:%d,%d,%d,%d,%d' % (reg, rint(rng), rng.randrange(0, 90), rint(rng), rint(rng)))
            elif op == 'cp':
                y = rng.randrange(NREG)
                toks.append('cp:%d,%d' % (reg, y))
                kd = kinds.get(reg, '')
                if kd and kd.split(':')[0] in ('Int', 'Float', 'String', 'Pt', 'Array', 'List', 'Table', 'Tree'):
                    kinds[y] = kd
            else:
                toks.append('%s:%d,%d,%d' % (op, reg, rint(rng), rint(rng)))
        elif x < .80:
            op = rng.choice(OBS)
            reg = aim(rng, kinds, op, reg, focus)
            if op in ('cm', 'zp', 'xz'):
                same = [q for q, kd in kinds.items() if (kd == kinds.get(reg) or (op == 'xz' and kd.split(':')[0] == 'List') or (op == 'zp' and kd.split(':')[0] in ('Array', 'List', 'Table', 'Tree'))) and q != reg]
                kd0 = kinds.get(reg, '')
                if not same and kd0.split(':')[0] in COPYABLE and rng.random() < .7:
                    y0 = rng.choice([q for q in range(NREG) if q != reg])
                    toks.append('cp:%d,%d' % (reg, y0)); kinds[y0] = kd0
                    if rng.random() < .6:
                        toks.append('%s:%d,%d,%d' % (rng.choice(['pu', 'se', 'po', 'ap']), y0, rint(rng), rint(rng)))
                    same = [y0]
                y = rng.choice(same) if same and rng.random() < .85 else rng.randrange(NREG)
                toks.append('%s:%d,%d' % (op, reg, y))
            else:
                toks.append('%s:%d,%d,%d' % (op, reg, rint(rng), rint(rng)))
        else:
            op = rng.choice(FREE)
            if op in ('D', 'gc'):
                toks.append(op)
            elif op in ('dr', 'dl'):
                toks.append('%s:%d' % (op, reg))
                kinds.pop(reg, None)
                if op == 'dl':      # the harness clears the Refs to a deleted object; which ones is not tracked here
                    for q in [q for q, kd in kinds.items() if kd == 'Ref']:
                        pass
            elif op == 'rt':
                toks.append('rt:%d,%d,%d' % (rng.choice([2, 3, 8, 9, 20, 21, 50, 51, 66, rng.randrange(70)]), rng.randrange(0, 200), rng.randrange(4)))
            elif op == 'dy':
                toks.append('dy:%d,%d' % (rng.randrange(0, 9000), rng.randrange(0, 9000)))
            elif op == 'hv':
                toks.append('hv:%d,%d,%d' % (rng.randrange(10), rng.randrange(0, 200), rint(rng)))
            elif op == 'mm':
                toks.append('mm:%d,%d,%d' % (rng.randrange(16), rng.randrange(0, 64), rint(rng)))
            elif op == 'tf':
                c = [q for q, kd in kinds.items() if kd.split(':')[0] in ('Array', 'List', 'Table', 'Tree')]
                toks.append('tf:%d,%d' % (rng.choice(c) if c else reg, rint(rng)))
            else:
                toks.append('%s:%d,%d,%d,%d' % (op, rint(rng), rint(rng), rint(rng), rint(rng)))
        if rng.random() < .1 and kinds:
            focus = rng.choice(list(kinds))
    toks.append('gc')
    toks.append('D')
    return 'wl|' + ' '.join(toks)


def gen_seq(rng, nops, in_contract):
    n0 = rng.choice([0, 0, 1, 2, 3, 5, 8])
    init = [rng.randrange(-5, 20) for _ in range(n0)]
    n = n0
    ops = []
    for _ in range(nops):
        k = rng.choice('ggsspPPoOOlmr')
        v = rng.randrange(-5, 20)
        if in_contract:
            if k in 'gsO' :
                if n == 0: continue
                i = rng.choice([-n, -1, 0, n - 1, rng.randrange(-n, n)])
            elif k == 'P':
                i = rng.choice([-(n + 1), -1, 0, n, rng.randrange(-(n + 1), n + 1)])
            elif k == 'o' and n == 0:
                continue
        else:
            i = rng.choice([-n - 2, -n - 1, -n, -1, 0, n - 1, n, n + 1, rng.randrange(-n - 3, n + 4)])
        if k == 'g': ops.append('g%d' % i)
        elif k == 's': ops.append('s%d,%d' % (i, v))
        elif k == 'p': ops.append('p%d' % v); n += 1
        elif k == 'P':
            ops.append('P%d,%d' % (v, i))
            if -(n + 1) <= i <= n: n += 1
        elif k == 'o':
            ops.append('o')
            if n > 0: n -= 1
        elif k == 'O':
            ops.append('O%d' % i)
            if -n <= i < n: n -= 1
        elif k == 'l': ops.append('l')
        elif k == 'm': ops.append('m%d' % v)
        elif k == 'r':
            ops.append('r%d' % v)       # may be absent: unguarded ValueError, the same in every build
            n = -1                      # length no longer tracked exactly
            break
    return 'seq|' + ','.join(map(str, init)) + '|' + ' '.join(ops)


def gen_heap(rng, nops):
    """heap program of the collector model; a Python mirror of the object graph keeps most paths valid"""
    nregs = rng.choice([2, 3, 4, 6])
    regs = [None] * nregs
    objs = {}
    nxt = [0]

    def walk():
        live = [i for i, a in enumerate(regs) if a is not None]
        if not live or rng.random() < .08:
            return '%d%s' % (rng.randrange(nregs + 1), ''.join('.%d' % rng.randrange(4) for _ in range(rng.randrange(3)))), None
        r = rng.choice(live); a = regs[r]; p = str(r)
        for _ in range(rng.randrange(0, 4)):
            if not objs[a]:
                break
            i = rng.randrange(len(objs[a])); p += '.%d' % i; a = objs[a][i]
        return p, a

    toks = []
    for _ in range(nops):
        x = rng.random()
        if x < .30 or all(a is None for a in regs):
            dst = rng.randrange(nregs) if rng.random() < .95 else nregs
            ps = [walk() for _ in range(rng.choice([0, 0, 1, 2, 3, 4, 4]) if any(a is not None for a in regs) else 0)]
            toks.append('A%d,%d%s' % (dst, rng.randrange(-50, 1000), ''.join(',' + p for p, _ in ps)))
            if all(a is not None for _, a in ps):
                objs[nxt[0]] = [a for _, a in ps]
                if dst < nregs: regs[dst] = nxt[0]
                nxt[0] += 1
        elif x < .50:
            toks.append('R%s' % walk()[0])
        elif x < .60:
            toks.append('W%s,%d' % (walk()[0], rng.randrange(-50, 1000)))
        elif x < .72:
            (p, a), (q, b) = walk(), walk()
            i = rng.randrange(4)
            toks.append('S%s,%d,%s' % (p, i, q))
            if a is not None and b is not None and i < len(objs[a]):
                objs[a][i] = b
        elif x < .82:
            dst = rng.randrange(nregs); p, a = walk()
            toks.append('M%d,%s' % (dst, p))
            if a is not None: regs[dst] = a
        elif x < .92:
            dst = rng.randrange(nregs); toks.append('D%d' % dst); regs[dst] = None
        else:
            toks.append('C')
    # read everything still reachable at depth <= 2
    for r in range(nregs):
        toks.append('R%d' % r)
        for i in range(2):
            toks.append('R%d.%d' % (r, i))
    return 'hp|%d|%s' % (nregs, ' '.join(toks))


def heap_oracle(case, impl, spec):
    for t, x in unpack(impl).items():
        if x != spec:
            return 'configuration %s differs from the model without a collector: %s' % (t, first_diff(spec, x))
    return None


def heap_corr(case, impl, model):
    m = unpack(model)
    if m['heap0'] != m['heap1']:
        return 'model with collector differs from model without: %s' % first_diff(m['heap0'], m['heap1'])
    return None


CORPUS_HEAP = [
    'hp|3|A0,5 A1,6,0 D0 R1.0 W1.0,9 M2,1.0 R2 A1,7 R1 C D2 C R1 R1.0 R2',
    'hp|2|A0,1 A1,2,0,0 S0,0,1 S1,1,1 C R1.1.1.0 D0 C R1.0 R1.1.0 A0,3,1.0 C R0.0 R9 R0.5',     # cycles, shared fields, bad paths
]


def enum_seq(L, inits):
    """all histories of length 1..L over a small alphabet (every index in -3..3), on every initial array given"""
    alpha = (['g%d' % i for i in range(-3, 4)] + ['s%d,9' % i for i in range(-3, 4)] + ['p5'] +
             ['P7,%d' % i for i in range(-3, 4)] + ['o'] + ['O%d' % i for i in range(-3, 4)] + ['l', 'm1', 'r1', 'r9'])
    out = []
    for init in inits:
        for n in range(1, L + 1):
            for h in itertools.product(alpha, repeat=n):
                out.append('seq|%s|%s' % (init, ' '.join(h)))
    return out


# ---------------------------------------------------------------------------------------------- coverage of guarded blocks
# For every function of src/*.c that contains a `#if CELLO_<X>_CHECK` block (the list is re-extracted from the
# source: Generated.cfg_guarded_blocks), the allocation classes of the object for which a call is IN CONTRACT
# and the workload operations (operation/Type of the register, or el:/sk: label@class) that reach the function
# on an object of that class.  A guarded function that is missing here, or a class no operation of the run
# reached, shows up in the evidence (coverage.guarded_block_coverage) and in the notes.
SEQ = ['Array', 'List']
ANYC = ['Array', 'List', 'Table', 'Tree']


def _k(ops, types):
    return ['%s/%s' % (o, t) for o in ops for t in types]


GUARD_COVER = {
    'alloc_by': {'heap': ['ni', 'nf', 'ns', 'np', 'na', 'nl', 'nt', 'nr', 'nu', 'nn', 'rw']},
    'dealloc_check': {'heap': _k(['dl'], ANYC + ['String', 'Int', 'Float', 'Pt']) + ['rw']},
    'Array_New': {'heap': ['na', 'nn', 'rw']},
    'Array_Assign': {'heap': ['as/Array', 'cp/Array'], 'data': ['el:Array.assign@data', 'nn']},
    'Array_Reserve_More': {'heap': ['pu/Array', 'pa/Array', 'cc/Array', 'ap/Array'],
                           'data': ['el:Array.push@data', 'el:Array.push_at@data', 'el:Array.concat@data']},
    'Array_Pop_At': {'heap': ['pt/Array', 'rm/Array'], 'data': ['el:Array.pop_at@data']},
    'Array_Push_At': {'heap': ['pa/Array'], 'data': ['el:Array.push_at@data']},
    'Array_Pop': {'heap': ['po/Array'], 'data': ['el:Array.pop@data']},
    'Array_Get': {'heap': ['ge/Array', 'el/Array'], 'data': ['el:Array.push@data', 'el:Array.set@data', 'el:Array.concat@data']},
    'Array_Set': {'heap': ['se/Array'], 'data': ['el:Array.set@data']},
    'Array_Resize': {'heap': ['rs/Array', 'cl/Array'], 'data': ['el:Array.resize@data']},
    'GC_Rehash': {'heap': ['gc', 'na', 'th']},
    'List_Alloc': {'heap': ['nl', 'pu/List', 'pa/List'], 'data': ['el:List.push@data', 'el:List.push_at@data', 'el:List.concat@data']},
    'List_At': {'heap': ['ge/List', 'se/List', 'pt/List', 'pa/List', 'el/List'],
                'data': ['el:List.set@data', 'el:List.pop_at@data', 'el:List.push_at@data']},
    'List_Pop': {'heap': ['po/List'], 'data': ['el:List.pop@data']},
    'String_New': {'heap': ['ns', 'fm', 'sn']},
    'String_Del': {'heap': ['dl/String', 'gc'], 'data': _k(['po', 'pt', 'cl', 'rm'], ANYC)},
    'String_Assign': {'heap': ['as/String', 'sk:string@stack'],
                      'data': ['el:String.assign@data', 'el:String.assign@data.data'] + _k(['se', 'pu'], ANYC)},
    'String_Clear': {'heap': ['xl/String'], 'data': ['el:String.look@data', 'el:String.look@data.data']},
    'String_Concat': {'heap': ['ap/String', 'cc/String', 'pu/String', 'sk:string@stack'],
                      'data': ['el:String.concat@data', 'el:String.concat@data.data']},
    'String_Resize': {'heap': ['rs/String', 'cl/String', 'sn', 'fl'], 'data': ['el:String.resize@data', 'el:String.resize@data.data']},
    'String_Format_To': {'heap': ['fm', 'sn', 'D'], 'data': ['el:String.format@data', 'el:String.format@data.data']},
    'Table_New': {'heap': ['nt', 'nn', 'th']},
    'Table_Assign': {'heap': ['as/Table', 'cp/Table'], 'data': ['nn', 'cp/Array', 'cp/List']},
    'Table_Rehash': {'heap': ['se/Table', 'pu/Table', 'rs/Table', 'rm/Table'], 'data': ['el:Table.set@data', 'el:Table.rem@data', 'el:Table.resize@data']},
    'Table_Resize': {'heap': ['rs/Table', 'cl/Table'], 'data': ['el:Table.resize@data']},
    'Tree_Alloc': {'heap': ['nr', 'se/Tree', 'pu/Tree']},
    'Tuple_New': {'heap': ['nu', 'nn'], 'stack': ['sk:tuple@stack', 'fm', 'ca']},
    'Tuple_Del': {'heap': ['gc'], 'data': _k(['po', 'pt', 'cl', 'rm'], ANYC)},
    'Tuple_Assign': {'heap': ['th', 'zp/Array', 'zp/List'], 'data': ['el:Tuple.assign@data', 'nn']},
    'Tuple_Get': {'heap': ['ge/Tuple', 'el/Tuple'], 'data': ['el:Tuple.set@data', 'el:Tuple.push@data'], 'stack': ['sk:tuple@stack', 'fm', 'ca']},
    'Tuple_Set': {'heap': ['se/Tuple'], 'data': ['el:Tuple.set@data'], 'stack': ['sk:tuple@stack']},
    'Tuple_Push': {'heap': ['pu/Tuple', 'nu'], 'data': ['el:Tuple.push@data']},
    'Tuple_Pop': {'heap': ['po/Tuple'], 'data': ['el:Tuple.pop@data']},
    'Tuple_Push_At': {'heap': ['pa/Tuple'], 'data': ['el:Tuple.push_at@data']},
    'Tuple_Pop_At': {'heap': ['pt/Tuple', 'rm/Tuple'], 'data': ['el:Tuple.pop_at@data']},
    'Tuple_Concat': {'heap': ['cc/Tuple'], 'data': ['el:Tuple.concat@data']},
    'Tuple_Resize': {'heap': ['rs/Tuple'], 'data': ['el:Tuple.resize@data']},
    'Type_Alloc': {}, 'Type_New': {},       # run-time Types keep pointers into their creator's frame: not constructed by the workload
    'Type_Scan': {'heap': ['it/Array', 'ge/Table'], 'data': ['el:String.concat@data', 'el:Array.push@data'],
                  'stack': ['sk:tuple@stack', 'sk:string@stack', 'sk:num@stack', 'sk:ref@stack'], 'static': ['sk:type@static', 'sk:exc@static', 'hp']},
    'Type_Method_At_Offset': {'heap': ['it/Array', 'ge/Table'], 'data': ['el:String.concat@data', 'el:Array.push@data'],
                              'stack': ['sk:tuple@stack', 'sk:string@stack', 'sk:num@stack', 'sk:ref@stack'], 'static': ['sk:type@static', 'sk:exc@static', 'hp']},
    'Type_Of': {'heap': ['ty/Array', 'ty/Table', 'ty/String'], 'data': ['el:String.concat@data', 'el:Int.assign@data'],
                'stack': ['sk:tuple@stack', 'sk:string@stack', 'sk:num@stack'], 'static': ['sk:type@static', 'sk:exc@static']},
}
NOTE_MEMORY = 'MEMORY tests fire only when malloc fails: never in contract; the function itself is reached by the operations listed'


def guarded_block_coverage(covered):
    """rows of Generated.cfg_guarded_blocks (class test) x allocation class -> executed operations of this run"""
    src = open(os.path.join(vlib.COQ, 'Generated.v')).read()
    m = re.search(r'Definition cfg_guarded_blocks.*?\]%string\.', src, re.S)
    rows = re.findall(r'\("([^"]*)", "([^"]*)", "([^"]*)", "([^"]*)"\)', m.group(0)) if m else []
    out, missing, unexercised = {}, [], []
    for f, fn, sw, cl in rows:
        if cl != 'test' or fn in out:
            continue
        sws = sorted(set(s_ for f_, fn_, s_, c_ in rows if fn_ == fn and c_ == 'test'))
        if fn not in GUARD_COVER:
            out[fn] = {'file': f, 'switches': sws, 'coverage': 'NO WORKLOAD COVERAGE DECLARED for this guarded function'}
            missing.append(fn)
            continue
        ent = {'file': f, 'switches': sws, 'classes_in_contract': {}}
        for c, keys in GUARD_COVER[fn].items():
            hit = {k: covered[k] for k in keys if covered.get(k)}
            ent['classes_in_contract'][c] = hit if hit else 'NOT EXERCISED IN THIS RUN (declared: %s)' % ' '.join(keys)
            if not hit:
                unexercised.append('%s@%s' % (fn, c))
        if not GUARD_COVER[fn]:
            ent['classes_in_contract'] = 'not reachable by an in-contract workload (see props/C18.py)'
        if sws == ['MEMORY'] or 'MEMORY' in sws:
            ent['note'] = NOTE_MEMORY
        out[fn] = ent
    return out, missing, unexercised


# ---------------------------------------------------------------------------------------------- comparison
def unpack(impl):
    out = {}
    for part in impl.split(SEP):
        if '=' in part:
            t, tr = part.split('=', 1)
            out[t] = tr
    return out


def first_diff(a, b):
    x, y = a.split(' | '), b.split(' | ')
    for n, (p, q) in enumerate(zip(x, y)):
        if p != q:
            return 'operation %d: %s  /  %s' % (n, p[:160], q[:160])
    return 'transcript lengths %d / %d (last: %s / %s)' % (len(x), len(y), x[-1][:80], y[-1][:80])


def wl_oracle(case, impl, spec):
    tr = unpack(impl)
    tags = list(tr)
    ref = tags[0]
    for t in tags[1:]:
        if tr[t] != tr[ref]:
            return 'configuration %s and configuration %s disagree on an in-contract program: %s' % (ref, t, first_diff(tr[ref], tr[t]))
    return None


def op_value(o):
    """'pu=Array~ok' -> ('pu', 'Array', 'ok');  'fm=3:abc' -> ('fm', None, '3:abc')"""
    k, v = o.split('=', 1)
    m = re.match(r'([A-Za-z]+)~(.*)$', v, re.S)
    return (k, m.group(1), m.group(2)) if m else (k, None, v)


def wl_nontrivial(case, impl):
    tr = unpack(impl)
    t = next(iter(tr.values()), '')
    ops = t.split(' | ')
    eff = [o for o in ops if '=' in o and op_value(o)[2] not in ('-', '?', 'absent', '') and not op_value(o)[2].startswith('-:') and '!EXC' not in o]
    kinds = set(o.split('=', 1)[0] for o in eff)
    return len(eff) >= 8 and len(kinds) >= 5 and '!EXC' not in t and 'CRASH' not in t and 'TIMEOUT' not in t


def seq_oracle(case, impl, spec):
    tr = unpack(impl)
    s = spec.split(' | ') if spec else []
    ooc = bool(s) and s[-1] == 'OOC'
    want = s[:-1] if ooc else s
    for t, x in tr.items():
        got = x.split(' | ') if x else []
        if got[:len(want)] != want or (not ooc and len(got) != len(want)):
            return 'configuration %s departs from the specification inside the contract: %s' % (t, first_diff(' | '.join(want), ' | '.join(got[:len(want)] if ooc else got)))
    return None


def seq_corr(case, impl, model):
    tr = unpack(impl)
    m = unpack(model)
    for t, x in tr.items():
        mm = m['model1' if t.startswith('N') else 'model0']
        if x != mm:
            return 'configuration %s differs from the model: %s' % (t, first_diff(mm, x))
    return None


def split(case):
    k, rest = case.rsplit('|', 1)
    return k + '|', rest.split(' ')


def join(pre, toks):
    return pre + ' '.join(toks)


CORPUS_WL = [
    # seeds C18-r7-1 / r7-2: roots known only to static and malloc'ed memory across table growth; run-time type lifecycles
    'wl|rt:2,7,0 rt:8,3,1 rt:20,11,2 rt:50,5,3 rt:66,9,0 dy:1234,777 dy:88,4000 rt:9,1,1 dy:5,5 gc D',
    # seed C18-r6-1: heap views holding the only reference to their inputs, a collection, then use of the view
    'wl|' + ' '.join('hv:%d,%d,%d' % (k, 7 + 5 * k, 3 + k) for k in range(10)) + ' gc D',
    # seed C18-r4-2: manual memory management, every destructor path with boundary contents (emptied Box, …)
    'wl|' + ' '.join('mm:%d,%d,%d' % (k, 5 + 3 * k, 7 + k) for k in range(16)) + ' gc D',
    'wl|mm:0,1,1 mm:1,63,5 mm:2,0,4 mm:1,21,0 mm:3,9,4 mm:4,9,0 mm:6,3,1 mm:6,3,0 mm:7,2,0 mm:7,2,4 mm:11,4,0 mm:12,8,3 mm:13,1,1 mm:14,2,2 gc D',
    # seed C18-r2-2: concat / append / assign / resize / print_to on Strings that live inside containers
    'wl|na:0,2,5,3 nl:1,2,4,7 nt:2,1,2,6,4 nr:3,0,2,5,9 el:0,0,2,5,1 el:0,1,3,6,1 el:1,2,2,7,1 el:1,0,0,8,1 el:2,1,2,9,1 el:2,3,4,3,1 '
    'el:3,2,3,4,1 el:3,0,5,2,1 el:0,3,6,11,1 el:1,1,7,12,1 el:0,2,8,13,1 it:0 it:1 it:2 it:3 gc D',
    'wl|nn:0,0,0,3,5 nn:1,1,1,3,2 nn:2,2,2,3,7 nn:3,3,3,3,1 nn:4,0,1,4,3 el:0,0,0,4,1 el:0,1,2,5,0 el:0,2,4,6,1 el:0,0,8,7,2 el:1,0,0,4,1 el:1,1,5,4,1 '
    'el:4,0,2,9,0 el:4,1,5,9,1 el:2,0,0,4,9 el:2,1,2,4,9 el:3,0,0,5,1 el:3,1,3,5,0 el:3,2,4,6,1 so:0,1 cp:0,5 cm:0,5 pu:1,3 rm:0,4,1 it:0 it:1 it:2 it:3 it:4 gc D',
    'wl|sk:0,5,9 sk:1,17,2 sk:2,40,-3 sk:3,7,123 sk:4,1,5 sk:4,4,4 sk:5,0,0 sk:6,3,3 sk:7,9,1 D',
    'wl|na:0,0,5,3 it:0 pu:0,7 pa:0,5,2 ge:0,3 so:0,1 it:0 nl:1,2,4,1 it:1 ib:1 rv:1 nt:2,1,0,6,2 it:2 ge:2,3 rm:2,3 D '
    'tc:0,2,5,1 tn:1,2,3 rg:1,4,2 fm:0,12,-7 fm:2,5,9 fm:4,3,3 sn:5,17,33 ca:1,2,3 gc D nr:3,0,3,5,1 it:3 ib:3 nu:4,5,2 '
    'it:4 ib:4 sl:0,1,1 zp:0,1 en:1 fi:0,1 ma:0 ty:0 ty:2 ha:0 ha:2 cp:0,5 cm:0,5 cc:0,5 D dl:0 gc D',
    'wl|nu:0,6,4 nu:1,3,8 nu:2,5,0 it:0 ha:0 cc:0,1 it:0 cc:0,1 so:0,1 nu:3,4,12 pu:3,4 pu:3,8 pu:3,0 it:3 gc D',
    'wl|th:5,17,3 th:0,39,4 mx:1 fl:3,17,5 fl:0,300,99999 th:1,1,1 gc D',
    'wl|nt:0,2,3,9,4 it:0 ge:0,3 rm:0,1 nr:1,5,0,12,9 it:1 ib:1 hp:0 hp:3 hp:5 hp:13 na:2,0,7,1 tf:2,3 tf:2,9 tf:0,1 rw:12,5,3 ni:3,-77 lk:3 iq:3 iq:0 iq:2 gc D',
    'wl|na:0,3,20,4 so:0,1 it:0 so:0,2 it:0 po:0 pt:0,-3 pa:0,9,-1 rs:0,3 it:0 cl:0 po:0 pu:0,1 D',
    'wl|nt:1,0,2,23,7 nt:2,1,3,23,1 rs:1,30 it:1 cl:1 se:1,4,4 it:1 cp:2,3 cm:2,3 ha:2 ha:3 gc nr:4,1,1,20,2 it:4 ib:4 rm:4,7 rm:4,8 D',
]
CORPUS_SEQ = [
    'seq|1,2,3|g0 g-1 g-3 s1,9 s-3,4 p4 P7,0 P8,-1 P6,-7 P5,6 o O1 O-1 l m9 r9 l',
    'seq||p1 o p2 P3,0 P4,-3 P5,3 O-4 O0 O0 O0',
    'seq|5|g1',           # outside the contract: checked builds raise, unchecked builds are not run
    'seq||o',
]


MY_COQ_FILES = {'Generated.v', 'Config.v', 'ConfigProofs.v', 'ConfigGlue.v', 'Properties_C18.v', 'Properties_C18_glue.v'}


def coq_glue(ctx):
    """Second Coq step: Properties_C18_glue.v (hypotheses discharged from C08 / C01 / C04 theorems).  Its cone contains
    other properties' modules.  A failure inside one of C18's own files is a C18 obligation; a failure inside another
    property's module (its source tie broke: that property's check reports it) is recorded in the evidence as
    'inherited' and does not make C18 alarm — C18's own statements (Properties_C18.v) are unaffected by it."""
    core = {k: ctx.cov.get(k) for k in ('obligations', 'discharged', 'checker_cmd')}
    core_tb = list(ctx.cov.get('trusted_base') or [])
    core_broken = getattr(ctx, 'proof_broken', None)
    core_thms = list(getattr(ctx, 'theorems', []))
    ok = ctx.coq('Properties_C18_glue.v')
    g_obl, g_dis, g_msg = ctx.cov.get('obligations') or 0, ctx.cov.get('discharged') or 0, getattr(ctx, 'proof_broken', None)
    g_tb = list(ctx.cov.get('trusted_base') or [])
    ctx.theorems = core_thms + list(getattr(ctx, 'theorems', []))
    ctx.cov['checker_cmd'] = '%s ; %s' % (core['checker_cmd'], ctx.cov.get('checker_cmd'))
    if ok:
        ctx.cov['obligations'] = (core['obligations'] or 0) + g_obl
        ctx.cov['discharged'] = (core['discharged'] or 0) + g_dis
        ctx.cov['trusted_base'] = core_tb + [t for t in g_tb if t not in core_tb]
        ctx.cov['glue_status'] = 're-established in this run (%d statements)' % g_dis
        ctx.proof_broken = core_broken
        return
    m = re.search(r'\((?:\./)?([A-Za-z0-9_]+\.v):\d+\)', g_msg or '')
    culprit = m.group(1) if m else None
    if culprit is None and getattr(ctx, 'gen_dependent', False):
        # vlib rebuilt the cone against the last known-good Generated.v: the file that did not build against the
        # regenerated one is named in the first error
        m = re.search(r'File "(?:\./)?([A-Za-z0-9_]+\.v)"', getattr(ctx, 'gen_first_error', '') or '')
        culprit = m.group(1) if m else None
        if culprit in MY_COQ_FILES and not any(g.split()[1].startswith(('cfg_', 'genx_cfg')) for g in ctx.gen_broken if len(g.split()) > 1):
            culprit = None
    if core_broken:
        ctx.proof_broken = core_broken
        ctx.cov['obligations'] = (core['obligations'] or 0) + g_obl
        ctx.cov['discharged'] = core['discharged'] or 0
        ctx.cov['trusted_base'] = core_tb
        ctx.cov['glue_status'] = 'not checked: the core obligations are broken'
    elif culprit is None or culprit in MY_COQ_FILES:
        ctx.cov['obligations'] = (core['obligations'] or 0) + g_obl
        ctx.cov['discharged'] = (core['discharged'] or 0) + g_dis
        ctx.cov['trusted_base'] = core_tb
        ctx.cov['glue_status'] = 'BROKEN in C18\'s own files: ' + (g_msg or '')[:300]
        ctx.proof_broken = g_msg
    else:
        ctx.cov['obligations'] = core['obligations']
        ctx.cov['discharged'] = core['discharged']
        ctx.cov['trusted_base'] = core_tb
        ctx.cov['glue_status'] = ('not re-established in this run (inherited): %s, a module of another property, does not build against '
                                  'the regenerated Generated.v — that property\'s check reports it; the statements of '
                                  'Properties_C18_glue.v (G1-G7) are instances of its theorems' % culprit)
        ctx.notes.append('glue statements not re-established: ' + culprit + ' does not build (inherited from its owner)')
        ctx.proof_broken = None


def run(ctx):
    quick = ctx.tier == 'quick'
    import shutil as _sh
    extra = [c for c in (EXTRA_QUICK if quick else EXTRA_THOROUGH) if len(c) < 5 or _sh.which(c[4])]
    cfgs = ALL + extra
    ctx.cov['rule'] = (
        'workload stream: seeded register-machine programs (3-7 constructors, then %s operations drawn from 81 kinds (one of them, `mm`, is 16 manual-memory scenarios: every object deleted exactly once, destructor ledger in the transcript): '
        'Array/List/Table/Tree/Tuple/String/Int/Float/user-type construction, push/push_at/pop/pop_at/get/set/mem/rem/'
        'sort/sort_by/resize/concat/append/assign/copy/swap/cmp/hash, forward and backward iteration, slice/reverse/zip/'
        'enumerate/filter/map/range views, print_to formatting of every conversion class, scan_from round trip, Function '
        'call, try/throw/catch with propagation through frames and through a non-matching inner handler, worker threads '
        '(own collector and exception context), Mutex, File write/reopen/read, Help documentation, show/look, raw and root allocation, instance queries, del/drop, forced collections) interpreted '
        'by harness/config_workload.c, which maps every argument into the contract of the call it makes; the library is '
        'built in all 24 configurations of {checks, CELLO_NDEBUG} x {cache, CELLO_CACHE=0} x {GC, CELLO_NGC} x {O0,O2,O3} plus a few '
        'beyond the matrix (-O1, -Os, clang when installed); '
        '%s; transcripts are compared byte for byte. A program is non-trivial when at least 8 operations had an effect '
        '(did not print "-"), of at least 5 different kinds, and no exception escaped; distinct = distinct transcripts. '
        'array stream: operation sequences on an Array of Int (in-contract in every build; with out-of-range indices only '
        'in the checked builds) compared with the extracted Coq model under the matching checks flag and with the '
        'configuration-free specification. heap stream: programs of the collector model (allocate/read/write/re-link/move/drop over a '
        'register file, cycles and sharing allowed, forced collections) on collector-managed structs, every build compared with '
        'the extracted model run without a collector, and the model with its collector compared with the model without.'
        % ('20-70' if quick else '20-120',
           'the corpus and the first part of each stream run on all 24, the rest on a pairwise-covering six (every pair of '
           'settings of two switches occurs together; includes all-on and all-off)' if quick else 'every program runs on all 24'))
    ctx.assumptions += [
        'compiler (gcc -O0/-O2/-O3), ABI/header layout, method cache and collector are exercised by running, not modelled: '
        'agreement is established on the generated programs only',
        'the Coq theorems are about the abstract interpreter of coq/Config.v and the Array sequence API written in it; the C '
        'text is tied to it by Generated.v (guard conditions, switch list, audit of every #if CELLO_*_CHECK block) and by the '
        'array correspondence stream',
        'cache transparency and collector transparency are the statements of C08 and C01 and are not re-proved here']
    ctx.coq()
    coq_glue(ctx)
    try:
        drv = ctx.build_driver('Config')
    except vlib.ModelBuildError as e:
        # the model can no longer be regenerated from the source (a guard changed shape): the obligation is
        # broken (ctx.proof_broken is set); go on without the model so that a concrete failing input is searched
        drv = None
        ctx.notes.append('model does not build: %s' % str(e)[-600:])
        if not getattr(ctx, 'proof_broken', None):
            ctx.proof_broken = 'the Coq model of Config.v no longer builds against Generated.v: %s' % str(e)[-600:]

    t0 = time.time()
    hs = {}
    # library builds: vlib compiles the sources of one build in parallel; two builds at a time
    def build(c):
        tag = cfg_tag(c)
        ctx.build_lib(tag, cfg_flags(c), cc=(c[4] if len(c) > 4 else 'gcc'))
        return tag, ctx.build_harness('config_workload.c', tag=tag)
    with ThreadPoolExecutor(max_workers=2) as ex:
        for tag, h in ex.map(build, cfgs):
            hs[tag] = h
    ctx.notes.append('built %d configurations in %.1fs' % (len(hs), time.time() - t0))
    all_tags = [cfg_tag(c) for c in cfgs]
    pair_tags = [cfg_tag(c) for c in QUICK]

    # every binary reports what it was built as: the flags really took effect
    for c in cfgs:
        tag = cfg_tag(c)
        rc, lines, e = ctx.run_lines(hs[tag], ['cfg|'])
        want = 'header=%d cache=%d checks=%d gc=%d' % (1 if c[0] else 3, 0 if c[1] else 1, 0 if c[0] else 1, 0 if c[2] else 1)
        if not lines or lines[0] != want:
            raise vlib.HarnessBuildError('configuration %s reports "%s", expected "%s"' % (tag, lines[0] if lines else '', want))

    def run_cfgs(cases, which):
        outs = {}
        def one(tag):
            rc, lines, e = ctx.run_lines(hs[tag], cases, timeout=1200, env=dict(os.environ, H_TMPDIR=ctx.tmp))
            if len(lines) != len(cases):
                raise RuntimeError('harness %s returned %d lines for %d cases: %s' % (tag, len(lines), len(cases), e[-500:]))
            return tag, lines
        with ThreadPoolExecutor(max_workers=4) as ex:
            for tag, lines in ex.map(one, which):
                outs[tag] = lines
        return outs

    import collections
    hist, effective, covered = collections.Counter(), collections.Counter(), collections.Counter()

    def mk(tags, suffix):
        def run_wl(cases):
            outs = run_cfgs(cases, tags)
            for line in outs[tags[0]]:
                for o in line.split(' | '):
                    if '=' in o:
                        k, ty, v = op_value(o)
                        hist[k] += 1
                        if v not in ('-', '?', 'absent') and not v.startswith('-:') and '!EXC' not in v:
                            effective[k] += 1
                            if ty:
                                covered[k + '/' + ty] += 1
                            else:
                                covered[k] += 1
                            if k in ('el', 'sk'):
                                covered[k + ':' + v.split(':', 1)[0]] += 1
            return [SEP.join('%s=%s' % (t, outs[t][i]) for t in tags) for i in range(len(cases))]

        def run_seq(cases):
            if drv is None:          # only in-contract histories are generated in this mode
                return run_wl(cases)
            fires = ctx.run_lines(drv, cases, args=['fires'])[1]
            inc = [c for c, f in zip(cases, fires) if f == '0']
            checked = [t for t in tags if t.startswith('d')]
            unchecked = [t for t in tags if t.startswith('N')]
            o1 = run_cfgs(cases, checked) if checked else {}
            o2 = run_cfgs(inc, unchecked) if (unchecked and inc) else {}
            res = []
            k = 0
            for i, (c, f) in enumerate(zip(cases, fires)):
                parts = ['%s=%s' % (t, o1[t][i]) for t in checked]
                if f == '0':
                    parts += ['%s=%s' % (t, o2[t][k]) for t in unchecked]
                    k += 1
                res.append(SEP.join(parts))
            return res

        def run_seq_model(cases):
            m0 = ctx.run_lines(drv, cases, args=['model0'])[1]
            m1 = ctx.run_lines(drv, cases, args=['model1'])[1]
            return ['model0=%s%smodel1=%s' % (a, SEP, b) for a, b in zip(m0, m1)]

        run_seq_spec = lambda cs: ctx.run_lines(drv, cs, args=['spec'])[1]
        dw = vlib.Differential(ctx, 'workload' + suffix, run_wl, None, None, wl_oracle, None, wl_nontrivial, split, join)
        if drv is not None:
            ds = vlib.Differential(ctx, 'array' + suffix, run_seq, run_seq_model, run_seq_spec, seq_oracle, seq_corr,
                                   lambda c, i: len(c.split(' ')) >= 4, split, join)
        else:
            ds = vlib.Differential(ctx, 'array' + suffix, run_seq, None, None, wl_oracle, None,
                                   lambda c, i: len(c.split(' ')) >= 4, split, join)
        return dw, ds

    # heap programs of the collector model: every build against the extracted model run without a collector
    # (specification) and with `sweep_unreferenced` before every operation (theorem collector_transparent)
    def run_heap(cases):
        outs = run_cfgs(cases, all_tags)
        return [SEP.join('%s=%s' % (t, outs[t][i]) for t in all_tags) for i in range(len(cases))]

    def run_heap_model(cases):
        m0 = ctx.run_lines(drv, cases, args=['heap0'])[1]
        m1 = ctx.run_lines(drv, cases, args=['heap1'])[1]
        return ['heap0=%s%sheap1=%s' % (a, SEP, b) for a, b in zip(m0, m1)]
    dh = None
    if drv is not None:
        dh = vlib.Differential(ctx, 'heap', run_heap, run_heap_model, lambda cs: ctx.run_lines(drv, cs, args=['heap0'])[1],
                               heap_oracle, heap_corr, lambda c, i: c.count(' ') >= 10, split, join)

    dw, ds = mk(all_tags, '')                 # all 24 builds
    dwp, dsp = mk(pair_tags, '_pairwise')     # the covering six (quick tier: bulk of the streams)

    rp = os.environ.get('VERIF_REPLAY')
    if rp:
        r = json.load(open(rp))
        case = r.get('case')
        if case and case.startswith('seq|'):
            ds.feed([case])
        elif case and case.startswith('hp|') and dh is not None:
            dh.feed([case])
        elif case:
            dw.feed([case])
        else:
            dw.feed(CORPUS_WL); ds.feed(CORPUS_SEQ if drv is not None else CORPUS_SEQ[:2])
        for d in [dw, ds] + ([dh] if dh is not None else []):
            for x in d.oracle_fail + d.corr_fail:
                print('REPLAY: %s' % x[4])
                for t, tr in unpack(x[1]).items():
                    print('  %-14s %s' % (t, tr[:3000]))
                if x[3]: print('  spec           %s' % x[3][:3000])
        dw.report(); ds.report()
        if dh is not None: dh.report()
        return

    dw.feed(CORPUS_WL, 'corpus')
    ds.feed(CORPUS_SEQ if drv is not None else CORPUS_SEQ[:2], 'corpus')
    nwl = 1200 if quick else 12000
    maxops = 70 if quick else 120
    cases = [gen_wl(ctx.rng, ctx.rng.randrange(20, maxops)) for _ in range(nwl)]
    nseq = 1000 if quick else 30000
    scases = [gen_seq(ctx.rng, ctx.rng.randrange(3, 40), drv is None or ctx.rng.random() < .7) for _ in range(nseq)]
    if quick:
        dw.feed(cases[:250]); ds.feed(scases[:250])
        for i in range(250, nwl, 600):
            dwp.feed(cases[i:i + 600])
        dsp.feed(scases[250:])
    else:
        for i in range(0, nwl, 500):
            dw.feed(cases[i:i + 500])
        for i in range(0, nseq, 2000):
            ds.feed(scases[i:i + 2000])

    # small-scope exhaustive enumeration of Array histories (in and out of contract)
    if drv is not None:
        if quick:
            ex = enum_seq(2, ['', '1', '1,2'])
            dsp.feed(ex)
            ctx.cov['exhaustive'] = 'all %d Array histories of length <= 2 over 34 operations (indices -3..3) on [], [1], [1,2]: pairwise six builds + model + specification' % len(ex)
        else:
            ex2 = enum_seq(2, ['', '1', '1,2'])
            ds.feed(ex2)
            ex3 = enum_seq(3, ['', '1,2'])
            for i in range(0, len(ex3), 5000):
                dsp.feed(ex3[i:i + 5000])
            ctx.cov['exhaustive'] = ('all %d Array histories of length <= 2 (34 operations, indices -3..3, on [], [1], [1,2]) on all 24 builds; '
                                     'all %d of length <= 3 on [], [1,2] on the pairwise six; each also against model and specification' % (len(ex2), len(ex3)))

    if dh is not None:
        dh.feed(CORPUS_HEAP)
        nh = 400 if quick else 6000
        hcases = [gen_heap(ctx.rng, ctx.rng.randrange(5, 60)) for _ in range(nh)]
        for i in range(0, nh, 1000):
            dh.feed(hcases[i:i + 1000])
        ctx.cov['heap_programs'] = dh.ncases
    gcov, gmissing, gunex = guarded_block_coverage(covered)
    ctx.cov['guarded_block_coverage'] = gcov
    if gmissing:
        ctx.notes.append('guarded functions without declared workload coverage (new #if CELLO_*_CHECK block?): ' + ' '.join(gmissing))
    if gunex:
        ctx.notes.append('guarded function x allocation class not exercised in this run: ' + ' '.join(gunex))
    ctx.cov['operation_histogram'] = {k: '%d executed, %d with an effect' % (hist[k], effective[k]) for k in sorted(hist)}
    ctx.cov['configurations'] = all_tags
    ctx.cov['configurations_beyond_the_matrix'] = [cfg_tag(c) for c in extra]
    ctx.cov['configurations_pairwise'] = pair_tags if quick else []
    ctx.cov['workload_programs'] = dw.ncases + dwp.ncases
    ctx.cov['workload_programs_on_all_24'] = dw.ncases
    ctx.cov['array_histories'] = ds.ncases + dsp.ncases

    def extra_wl(dd):
        dd.feed([gen_wl(ctx.rng, ctx.rng.randrange(20, maxops)) for _ in range(2 * nwl)])

    def extra_seq(dd):
        dd.feed([gen_seq(ctx.rng, ctx.rng.randrange(3, 40), True) for _ in range(5 * min(nseq, 2000))])
    dw.report(extra_wl)
    ds.report(extra_seq)
    dwp.report(extra_wl)
    dsp.report(extra_seq)
    if dh is not None:
        dh.report(lambda dd: dd.feed([gen_heap(ctx.rng, ctx.rng.randrange(5, 60)) for _ in range(2000)]))
