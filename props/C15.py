"""C15 — show/look and print_to/scan_from round-trip values (Int, Float, String; String and File)."""
import os, json
from fractions import Fraction
import vlib

# ---------------------------------------------------------------------------------------------
# case text:  <K>:<prehex>:<resthex>:<mode>|<tok> <tok> ...      (see harness/roundtrip.c)
# ---------------------------------------------------------------------------------------------
ESCAPED = [7, 8, 12, 10, 13, 9, 11, 92, 39, 34, 63]                 # bytes String_Show escapes
LETTERS = [ord(c) for c in 'abfnrtv']                               # the escape letters
SAFE_FIRST = [ord(c) for c in ',;:|/ \t\n!#&()*<=>@[]^_{}~%ghjkmqrstuvwyzGHJKMQRSTUVWYZ']
LIT_CHARS = list(range(32, 127)) + [9, 10, 37, 37]
WS = (32, 9, 10, 11, 12, 13)

I64MIN, I64MAX = -2**63, 2**63 - 1

# (print spec, scan spec, low, high) : ranges in which C's conversion of an int64 argument is faithful
INT_SPECS = [
    ('li', 'li', I64MIN, I64MAX), ('ld', 'ld', I64MIN, I64MAX), ('li', 'ld', I64MIN, I64MAX), ('ld', 'li', I64MIN, I64MAX),
    ('+li', 'li', I64MIN, I64MAX), ('_ld', 'ld', I64MIN, I64MAX), ('8li', 'li', I64MIN, I64MAX), ('24ld', 'li', I64MIN, I64MAX),
    ('08ld', 'ld', I64MIN, I64MAX), ('+022ld', 'ld', I64MIN, I64MAX), ('3li', 'ld', I64MIN, I64MAX),
    ('lu', 'lu', I64MIN, I64MAX), ('lx', 'lx', I64MIN, I64MAX), ('lX', 'lx', I64MIN, I64MAX), ('lo', 'lo', I64MIN, I64MAX),
    ('#lx', 'li', 0, I64MAX), ('#lo', 'li', 0, I64MAX), ('#lX', 'lx', 0, I64MAX), ('018lx', 'lx', 0, I64MAX), ('20lu', 'lu', 0, I64MAX),
    ('d', 'd', -2**31, 2**31 - 1), ('i', 'i', -2**31, 2**31 - 1), ('d', 'i', -2**31, 2**31 - 1), ('+d', 'd', -2**31, 2**31 - 1),
    ('6d', 'd', -2**31, 2**31 - 1), ('06i', 'd', -2**31, 2**31 - 1), ('d', 'li', -2**31, 2**31 - 1), ('li', 'd', -2**31, 2**31 - 1),
    ('u', 'u', 0, 2**32 - 1), ('x', 'x', 0, 2**32 - 1), ('X', 'x', 0, 2**32 - 1), ('o', 'o', 0, 2**32 - 1), ('#x', 'i', 0, 2**31 - 1),
    ('u', 'lu', 0, 2**32 - 1), ('x', 'lx', 0, 2**32 - 1),
]
FLOAT_SPECS = [('f', 'lf'), ('lf', 'lf'), ('.3f', 'lf'), ('.10f', 'lf'), ('+f', 'lf'), ('_f', 'lf'), ('14.4f', 'lf'),
               ('012.2f', 'lf'), ('.0f', 'lf'), ('#.0f', 'lf'), ('.1f', 'lf'), ('.15f', 'lf'), ('+020.8lf', 'lf')]


def hexs(bs):
    return ''.join('%02x' % b for b in bs)


def gen_bytes(rng, maxlen):
    n = rng.choice([0, 1, 1, 2, 2, 3, 4, 5, 8]) if rng.random() < .7 else rng.randrange(0, maxlen + 1)
    style = rng.random()
    out = []
    for _ in range(n):
        r = rng.random()
        if style < .25:
            out.append(rng.choice(ESCAPED + LETTERS + [92, 92, 34]))
        elif r < .25:
            out.append(rng.choice(ESCAPED))
        elif r < .35:
            out.append(rng.choice(LETTERS))
        elif r < .50:
            out.append(rng.randrange(128, 256))
        elif r < .60:
            out.append(rng.randrange(1, 32))
        elif r < .65:
            out.append(rng.choice([37, 32, 36, 48, 127, 255, 1]))
        else:
            out.append(rng.randrange(32, 127))
    return out


INT_GRID = sorted(set([0, 1, -1, 7, 8, 9, 10, -10, 99, 100, 255, 256, 2**31 - 1, 2**31, -2**31, -2**31 - 1, 2**32 - 1, 2**32,
                       -2**32, 2**53, 2**62, 2**63 - 1, -2**63, -2**63 + 1, 123456789012345678, -5, 4294967291]
                      + [10**k for k in range(1, 19)] + [10**k - 1 for k in range(1, 19)] + [-10**k for k in range(1, 19)]))


def gen_int(rng, lo, hi):
    r = rng.random()
    if r < .35:
        c = [z for z in INT_GRID if lo <= z <= hi]
        z = rng.choice(c)
    elif r < .45:
        z = rng.choice([lo, hi, lo + 1, hi - 1, lo + rng.randrange(100), hi - rng.randrange(100)])
    else:
        bits = rng.randrange(1, 65)
        z = rng.randrange(0, 2**bits)
        if rng.random() < .5:
            z = -z
    return max(lo, min(hi, z))


def dbl_bits(sign, ex, frac):
    return (sign << 63) | (ex << 52) | frac


FLOAT_GRID = [0x0000000000000000, 0x8000000000000000, 0x0000000000000001, 0x000fffffffffffff, 0x0010000000000000,
              0x7fefffffffffffff, 0xffefffffffffffff, 0x419d6f34547e6b75,            # 123456789.123456
              0x3f80000000000000,            # 1/128: exact tie at six decimals
              0x3fb999999999999a, 0x3ff0000000000000, 0x4000000000000000, 0x3fe0000000000000, 0x4004000000000000,
              0x3eb0c6f7a0b5ed8d,            # 1e-6
              0x3ea0c6f7a0b5ed8d,            # 0.5e-6
              0x3e7ad7f29abcaf48,            # 1e-7
              0xbe7ad7f29abcaf48, 0x4202a05f20000000, 0x4340000000000000, 0x433fffffffffffff, 0x7e37e43c8800759c,   # 1e300
              0x405edd2f1a9fbe77, 0x400921fb54442d18, 0xc00921fb54442d18, 0x3fefffffffffffff, 0x412e847fffffffff]


def gen_float(rng, heavy_ok=True):
    r = rng.random()
    if r < .2:
        return rng.choice(FLOAT_GRID)
    if r < .3:
        # decimal-looking values k / 10^j
        import struct
        v = rng.randrange(0, 10**rng.randrange(1, 12)) / 10**rng.randrange(0, 9)
        if rng.random() < .5: v = -v
        return struct.unpack('<Q', struct.pack('<d', v))[0]
    if r < .4:
        # ties and near-ties at the printed precision: odd multiples of 2^-k
        import struct
        k = rng.randrange(1, 30)
        v = (2 * rng.randrange(0, 2**20) + 1) / 2**k
        return struct.unpack('<Q', struct.pack('<d', v))[0]
    sign = rng.randrange(2)
    if r < .9 or not heavy_ok:
        ex = 1023 + rng.randrange(-75, 85)          # moderate magnitudes: cheap for the bignum model
    else:
        ex = rng.randrange(0, 2047)                 # every exponent incl. subnormals (0), never 2047
    frac = rng.choice([0, 1, 2**52 - 1, 2**51, rng.randrange(2**52), rng.randrange(2**52), rng.randrange(2**52) & ~((1 << rng.randrange(53)) - 1)])
    return dbl_bits(sign, ex, frac)


def gen_lit(rng, first_safe=True, no_trailing_ws=False):
    n = rng.choice([1, 1, 1, 2, 2, 3, 5])
    bs = [rng.choice(SAFE_FIRST) if first_safe else rng.choice(LIT_CHARS)] + [rng.choice(LIT_CHARS) for _ in range(n - 1)]
    if rng.random() < .5:
        bs = [ord(c) for c in rng.choice([', ', ',', ';', ' ', ':', ' | ', '\n', '\t', ' and ', '/', ' = ', '; ', '%', '% ', ' %', '%%', ' 100% of '])]
    if no_trailing_ws:
        while bs and bs[-1] in WS:
            bs.pop()
        if not bs:
            bs = [ord(',')]
    return bs


def padded(ps):
    """the text of this print spec may start with white space"""
    return any(ch.isdigit() for ch in ps.split('.')[0]) or '_' in ps


def gen_value_tok(rng, kinds, heavy_ok):
    """-> (token, is_numeric, text_may_start_with_space)"""
    k = rng.choice(kinds)
    if k == 's':
        return '$s' + hexs(gen_bytes(rng, 200)), False, False
    if k == 'i':
        return '$i%d' % gen_int(rng, I64MIN, I64MAX), True, False
    if k == 'f':
        return '$f%016x' % gen_float(rng, heavy_ok), True, False
    if k == 'ni':
        ps, ss, lo, hi = rng.choice(INT_SPECS)
        return 'N%s/%s:%d' % (ps, ss, gen_int(rng, lo, hi)), True, padded(ps)
    ps, ss = rng.choice(FLOAT_SPECS)
    return 'N%s/%s:%016x' % (ps, ss, gen_float(rng, heavy_ok)), True, padded(ps)


def gen_case(rng, maxvals=6, kinds=('s', 's', 'i', 'f', 'ni', 'nf'), heavy_ok=True):
    K = rng.choice('SF')
    mode = rng.choice('GE')
    start = rng.choice([0, 0, 1, 2, 5, rng.randrange(0, 41)])
    pre = [rng.randrange(1, 256) for _ in range(start)]
    nvals = rng.choice([1, 1, 2, 3, rng.randrange(1, maxvals + 1)])
    vals = [gen_value_tok(rng, kinds, heavy_ok) for _ in range(nvals)]
    toks = []
    for i, (t, numeric, lead) in enumerate(vals):
        if i == 0:
            if rng.random() < .2:
                toks.append('L' + hexs(gen_lit(rng, first_safe=False)))
        elif vals[i - 1][1] or rng.random() < .85:
            # after a numeric text a separator is needed; between Strings it is optional
            toks.append('L' + hexs(gen_lit(rng, first_safe=True)))
        toks.append(t)
    last_numeric = vals[-1][1]
    rest = []
    if rng.random() < .15:
        # a closing literal; it must not end in white space when white space may follow
        toks.append('L' + hexs(gen_lit(rng, first_safe=True, no_trailing_ws=True)))
        last_numeric = False
        if rng.random() < .5:
            rest = [rng.randrange(1, 256) for _ in range(rng.randrange(1, 5))]
    elif rng.random() < .6:
        rest = gen_lit(rng, first_safe=True) + [rng.randrange(1, 256) for _ in range(rng.randrange(0, 4))]
    elif not last_numeric and rng.random() < .5:
        rest = [rng.randrange(1, 256) for _ in range(rng.randrange(1, 5))]
    return '%s:%s:%s:%s|%s' % (K, hexs(pre), hexs(rest), mode, ' '.join(toks))


# raw text for the scanner model (X tokens): numeric-looking text no writer produces — white space,
# signs, leading zeros, 0x / 0 prefixes, more digits than the target holds, exponents, trailing junk
RAW_INT_SPECS = ['li', 'ld', 'lu', 'lx', 'lo', 'd', 'i', 'u', 'x', 'o', 'lX']
JUNK = [ord(c) for c in ',; zgq-+/:|)']


def gen_raw_int(rng):
    sp = rng.choice(RAW_INT_SPECS)
    conv = sp[-1]
    style = {'d': 'dec', 'u': 'dec', 'x': 'hex', 'X': 'hex', 'o': 'oct'}.get(conv) or rng.choice(['dec', 'dec', 'hex0x', 'oct0'])
    n = rng.choice([1, 1, 2, 3, 5, 8, 9, 10, 11, 15, 16, 17, 18, 19, 20, 21, 22, 24])
    if style == 'dec':
        digs = ''.join(rng.choice('0123456789') for _ in range(n))
        if conv == 'i' and rng.random() < .8:
            digs = rng.choice('123456789') + digs[1:]
    elif style in ('hex', 'hex0x'):
        digs = ''.join(rng.choice('0123456789abcdefABCDEF') for _ in range(n))
        if style == 'hex0x' or rng.random() < .3:
            digs = rng.choice(['0x', '0X']) + digs
    else:
        digs = ''.join(rng.choice('01234567') for _ in range(n))
        if style == 'oct0':
            digs = '0' + digs
    if rng.random() < .1:
        digs = rng.choice(['9223372036854775807', '9223372036854775808', '18446744073709551615', '18446744073709551616',
                           '2147483647', '2147483648', '4294967295', '4294967296', '0', '00', '7fffffffffffffff'][:10 if style == 'dec' else 11])
        if style != 'dec' and not all(c in '01234567' for c in digs) and style in ('oct', 'oct0'):
            digs = '777'
    txt = rng.choice(['', '', ' ', '  ', '\t', '\n ']) + rng.choice(['', '', '-', '+']) + digs
    return sp, [ord(c) for c in txt]


def gen_raw_float(rng):
    sp = rng.choice(['lf', 'lf', 'lf', 'f'])
    ni, nf = rng.choice([0, 1, 1, 2, 5, 10, 17, 20, 25]), rng.choice([0, 0, 1, 3, 6, 10, 17, 20, 30])
    if ni + nf == 0:
        ni = 1
    ip = ''.join(rng.choice('0123456789') for _ in range(ni))
    fp = ''.join(rng.choice('0123456789') for _ in range(nf))
    if rng.random() < .3:
        ip = rng.choice(['0', '00', '1', '9', '17976931348623157', '17976931348623158', '17976931348623159', '4', '24703282292062327',
                         '24703282292062328', '22250738585072014', '9007199254740993', '9007199254740992'])
    txt = ip + ('.' + fp if (nf or rng.random() < .2) else '')
    if rng.random() < .6:
        ex = rng.choice([0, 1, -1, 5, -5, 22, -22, 37, 38, 39, -44, -45, -46, 291, 292, 307, 308, 309, -307, -308, -323, -324, -325, -340,
                         rng.randrange(-345, 330)])
        ex -= rng.choice([0, 0, ni - 1, ni])
        txt += rng.choice('eE') + (rng.choice(['', '+']) if ex >= 0 else '-') + str(abs(ex))
    txt = rng.choice(['', '', ' ', '\n']) + rng.choice(['', '', '-', '+']) + txt
    return sp, [ord(c) for c in txt]


def gen_raw_case(rng):
    K = rng.choice('SF')
    mode = rng.choice('GE')
    pre = [rng.randrange(1, 256) for _ in range(rng.choice([0, 0, 3, rng.randrange(0, 20)]))]
    toks = []
    for i in range(rng.choice([1, 1, 1, 2, 3])):
        sp, bs = gen_raw_int(rng) if rng.random() < .5 else gen_raw_float(rng)
        toks.append('X%s:%s' % (sp, hexs(bs + [rng.choice(JUNK)])))
    rest = [rng.randrange(1, 256) for _ in range(rng.randrange(0, 4))]
    return '%s:%s:%s:%s|%s' % (K, hexs(pre), hexs(rest), mode, ' '.join(toks))


# boundary stream: pieces (one format_to call = one value text or one literal) whose WRITTEN LENGTH sits
# on and next to powers of two — the sizes at which a sink's buffer handling changes
BOUNDARY_LENS = [15, 16, 17, 31, 32, 33, 63, 64, 65, 127, 128, 129, 255, 256, 257, 1023, 1024, 1025, 4095, 4096, 4097]
PLAIN = [b for b in range(1, 256) if b not in ESCAPED]


def f_bits(v):
    import struct
    return struct.unpack('<Q', struct.pack('<d', v))[0]


def float_with_f_length(rng, L, neg):
    """bit pattern of a finite double whose "%f" text has exactly L characters (8 <= L <= 316)"""
    d = L - 7 - (1 if neg else 0)                   # integer digits
    if d < 1 or d > 309:
        return None
    for _ in range(50):
        if d == 1:
            v = rng.choice([0.0, 0.5, 1.0, 9.25, rng.random() * 9])
        else:
            try:
                v = float(int(rng.uniform(1.0, 9.99) * 10 ** 15) * 10 ** (d - 16)) if d >= 16 \
                    else float(rng.randrange(10 ** (d - 1), 10 ** d)) + rng.choice([0, .5, .25])
            except OverflowError:
                continue
        if neg:
            v = -v
        if len('%f' % v) == L:
            return f_bits(v)
    return None


def string_with_show_length(rng, L, nesc):
    """String value whose String_Show text (two quotes, escapes doubled) has exactly L characters"""
    n = L - 2 - 2 * nesc
    if n < 0:
        return None
    bs = [rng.choice(PLAIN) for _ in range(n)] + [rng.choice(ESCAPED) for _ in range(nesc)]
    rng.shuffle(bs)
    return bs


def boundary_pieces(rng, lens):
    """(token, is_numeric) for every writer and every length"""
    out = []
    for L in lens:
        for nesc in (0, rng.choice([1, 2, 3, 5])):
            bs = string_with_show_length(rng, L, nesc)
            if bs is not None:
                out.append(('$s' + hexs(bs), False))
        for neg in (0, 1):
            b = float_with_f_length(rng, L, neg)
            if b is not None:
                out.append(('$f%016x' % b, True))
        z = gen_int(rng, I64MIN, I64MAX)
        out.append(('N%dli/li:%d' % (L, z), True))
        out.append(('N0%dld/ld:%d' % (L, gen_int(rng, I64MIN, I64MAX)), True))
        out.append(('N%dlx/lx:%d' % (L, gen_int(rng, 0, I64MAX)), True))
        if L <= 300:
            out.append(('N%d.3f/lf:%016x' % (L, gen_float(rng, False)), True))
        # a literal piece of that length (first character cannot continue a number)
        out.append(('L' + hexs([rng.choice(SAFE_FIRST)] + [rng.choice(LIT_CHARS[:95]) for _ in range(L - 2)] + [ord('|')]), None))
    return out


def boundary_second(rng):
    return rng.choice(['$i%d' % gen_int(rng, I64MIN, I64MAX), '$s' + hexs(gen_bytes(rng, 12)), '$f%016x' % gen_float(rng, False),
                       '$i7', '$s6162'])


def arrange(rng, tok, numeric, K, start, follow):
    pre = [rng.randrange(1, 256) for _ in range(start)]
    if numeric is None:                      # a literal piece: put values around it
        toks = [boundary_second(rng), tok, boundary_second(rng)] if follow else [tok, boundary_second(rng)]
        rest = []
    else:
        toks = [tok]
        rest = []
        if follow:
            toks += ['L' + hexs(rng.choice([[44, 32], [59], [32], [124], [37], [44]])), boundary_second(rng)]
            if toks[-1][1] in 'if':
                rest = rng.choice([[], [44]])
        elif numeric:
            rest = rng.choice([[], [44, 120]])
    return '%s:%s:%s:%s|%s' % (K, hexs(pre), hexs(rest), rng.choice('GE'), ' '.join(toks))


def gen_boundary(rng, quick):
    cases = []
    for tok, numeric in boundary_pieces(rng, BOUNDARY_LENS):
        big = len(tok) > 2500
        for K in 'SF':
            for start in (0, rng.randrange(1, 41)):
                for follow in (False, True):
                    if quick and big and (K == 'F' and not follow or start and not follow):
                        continue             # the 4 KiB pieces: fewer arrangements in the quick tier
                    cases.append(arrange(rng, tok, numeric, K, start, follow))
    # every "%f" length 8..316: each decade of magnitude, both signs; arrangements rotate
    n = 0
    for d in range(1, 310):
        for neg in (0, 1):
            b = float_with_f_length(rng, d + 7 + neg, neg)
            if b is None:
                continue
            combos = [(K, st, fo) for K in 'SF' for st in (0, 1) for fo in (False, True)]
            for (K, st, fo) in ([combos[n % 8], combos[(n + 3) % 8]] if quick else combos):
                cases.append(arrange(rng, '$f%016x' % b, True, K, rng.randrange(1, 41) if st else 0, fo))
            n += 1
    return cases


# Floats at the edges of the double range, written in exponent style (not modelled in Coq: oracle only)
EDGE_DOUBLES = [0x0010000000000000, 0x000fffffffffffff, 0x0000000000000001, 0x0000000000000002, 0x0008000000000000,
                0x7fefffffffffffff, 0x7feffffffffffffe, 0x7fe0000000000000, 0x0020000000000000, 0x0010000000000001,
                0x000012688b70e62b,          # 1e-310
                0x0000000027cd5c4b,          # -3.3e-315 (magnitude)
                0x7fe1ccf385ebc8a0,          # 1e308
                0x3ff0000000000000, 0x0000000000000000, 0x3fb999999999999a, 0x4340000000000000]
EG_SPECS = [('e', 'le'), ('g', 'lg'), ('.17g', 'lf'), ('.17e', 'le'), ('.3e', 'lf'), ('.3g', 'lg'), ('E', 'le'), ('G', 'lf'),
            ('le', 'le'), ('lg', 'lg'), ('+.10e', 'lf'), ('22.5e', 'le'), ('#g', 'lg'), ('.0e', 'le'), ('.16e', 'lf'), ('025.17g', 'lg')]


def gen_eg_cases(rng, quick):
    vals = [b | (s << 63) for b in EDGE_DOUBLES for s in (0, 1)]
    vals += [rng.randrange(1, 2 ** 52) | (rng.randrange(2) << 63) for _ in range(40)]                   # subnormals
    vals += [dbl_bits(rng.randrange(2), rng.choice([1, 2, 2045, 2046, rng.randrange(1, 2047)]), rng.randrange(2 ** 52)) for _ in range(40)]
    cases = []
    for n, b in enumerate(vals):
        for (ps, ss) in (EG_SPECS if n < 2 * len(EDGE_DOUBLES) else rng.sample(EG_SPECS, 3 if quick else 8)):
            tok = 'N%s/%s:%016x' % (ps, ss, b)
            K = rng.choice('SF'); follow = rng.random() < .5; start = rng.choice([0, 0, rng.randrange(1, 41)])
            cases.append(arrange(rng, tok, True, K, start, follow))
    return cases


# every length modifier of the integer conversions x every conversion x values at the edges of the named type
INT_MODS = [('hh', 8), ('h', 16), ('', 32), ('l', 64), ('ll', 64), ('j', 64), ('z', 64), ('t', 64), ('q', 64)]


def gen_mod_cases(rng, quick):
    cases = []
    for mod, w in INT_MODS:
        for conv in 'diuoxX':
            signed = conv in 'di'
            if signed:
                lo, hi = -2 ** (w - 1), 2 ** (w - 1) - 1
            elif w == 64:
                lo, hi = I64MIN, I64MAX                   # two's complement: every int64 goes through %lu and back
            else:
                lo, hi = 0, 2 ** w - 1
            edge = set([lo, hi, lo + 1, hi - 1, 0, 1, -1, 42, -1000])
            for k in (7, 8, 15, 16, 31, 32, 63):
                edge |= set([2 ** k - 1, 2 ** k, 2 ** k + 1, -2 ** k, -2 ** k - 1, -2 ** k + 1])
            vals = sorted(v for v in edge if lo <= v <= hi)
            if quick and len(vals) > 12:
                keep = [lo, hi, lo + 1, hi - 1, 0, -1 if lo < 0 else 1]
                vals = sorted(set(keep + rng.sample(vals, 8)))
            for v in vals:
                ps = rng.choice(['', '', '', '+' if signed else '', '12', '024' if conv != 'i' else '9']) + mod + conv
                sconv = {'X': 'x'}.get(conv, conv) if rng.random() < .5 else conv
                tok = 'N%s/%s:%d' % (ps, mod + sconv, v)
                cases.append(arrange(rng, tok, True, rng.choice('SF'), rng.choice([0, 0, rng.randrange(1, 41)]), rng.random() < .5))
    return cases


# ---------------------------------------------------------------------------------------------
def parse_case(case):
    hd, body = case.split('|', 1)
    K, pre, rest, mode = hd.split(':')
    return K, bytes.fromhex(pre), bytes.fromhex(rest), mode, [t for t in body.split(' ') if t]


def tok_info(t):
    """('L', bytes) | ('v', vt, value, precision, printspec)"""
    if t[0] == 'L':
        return ('L', bytes.fromhex(t[1:]))
    if t[0] == '$':
        if t[1] == 'i': return ('v', 'i', int(t[2:]), None, 'li')
        if t[1] == 'f': return ('v', 'f', int(t[2:], 16), 6, 'f')
        return ('v', 's', bytes.fromhex(t[2:]), None, '')
    ps, rem = t[1:].split('/', 1)
    ss, val = rem.split(':', 1)
    if ps[-1] in 'eEgG':
        return ('v', 'f', int(val, 16), None, ps)         # exponent style: judged against printf/strtod semantics
    if ps[-1] in 'fF':
        p = 6
        if '.' in ps:
            p = int(''.join(ch for ch in ps.split('.', 1)[1] if ch.isdigit()) or '0')
        return ('v', 'f', int(val, 16), p, ps)
    return ('v', 'i', int(val), None, ps)


def wellformed(case):
    """the side conditions of the property's composition: what follows a numeric text cannot continue
    the token; a closing literal that ends in white space is not followed by white space"""
    try:
        K, pre, rest, mode, toks = parse_case(case)
        infos = [tok_info(t) for t in toks]
    except Exception:
        return False
    if not any(i[0] == 'v' for i in infos):
        return False
    for n, inf in enumerate(infos):
        if inf[0] == 'L':
            if not inf[1] or b'\0' in inf[1]:
                return False
            if inf[1][-1] in WS and n + 1 == len(infos) and rest and rest[0] in WS:
                return False      # scanf's white-space directive would eat the following white space too
            if n + 1 < len(infos) and infos[n + 1][0] == 'L':
                return False
        elif inf[1] in 'if':
            nxt = infos[n + 1] if n + 1 < len(infos) else ('L', rest)
            if nxt[0] != 'L':
                return False
            if nxt[1] and nxt[1][0] not in SAFE_FIRST:
                return False
    return True


def float_q(bits):
    s, ex, fr = bits >> 63, (bits >> 52) & 2047, bits & (2**52 - 1)
    if ex == 2047:
        return None
    m, e = (fr, -1074) if ex == 0 else (2**52 + fr, ex - 1075)
    q = Fraction(m) * (Fraction(2) ** e)
    return -q if s else q


def oracle(case, impl, spec):
    """the property itself: every value comes back equal (Float: within the printed precision) and the
    reader's position equals the writer's = start + number of characters written."""
    if not wellformed(case):
        return None
    K, pre, rest, mode, toks = parse_case(case)
    vals = [i for i in map(tok_info, toks) if i[0] == 'v']
    if '|' not in impl or impl.count('|') != 1 or not impl.startswith('W') or 'CRASH' in impl or 'TIMEOUT' in impl or 'EXIT(' in impl:
        return 'no complete transcript: %s' % impl[-80:]
    w, r = impl.split('|')
    if w.startswith('W!'):
        return 'writer raised %s' % w[2:]
    if r.startswith('R!'):
        return 'reader raised %s' % r[2:]
    try:
        content, wpos, texts = w[1:].split(';'); wpos = int(wpos)
        texts = [bytes.fromhex(t) for t in texts.split(',')] if texts else []
        rv, rpos = r[1:].split(';'); rpos = int(rpos)
        content = bytes.fromhex(content)
    except Exception:
        return 'malformed transcript: %s' % impl[-80:]
    want = spec[1:].split(',') if spec and len(spec) > 1 else []
    got = rv.split(',') if rv else []
    if len(got) != len(vals) or len(want) != len(vals):
        return 'read %d values, %d were written' % (len(got), len(vals))
    for n, (g, wv, inf) in enumerate(zip(got, want, vals)):
        if inf[1] == 'f' and inf[3] is None:
            # %e / %g: the value strtod gives for the text printf writes (Python's float formatting and
            # parsing are correctly rounded like glibc's); this is within the printed precision whenever the
            # printed text is in range, and it is +-inf when rounding to few digits leaves the double range
            exp = c_float_roundtrip(inf[4], inf[2])
            if int(g[1:], 16) != exp:
                return 'value %d: Float %s written with %%%s reads back as %s, printf/strtod give %016x' % (n, wv, inf[4], g, exp)
        elif inf[1] == 'f':
            a, b = float_q(int(g[1:], 16)), float_q(int(wv[1:], 16))
            if a is None:
                return 'value %d: read back a non-finite Float (%s) for %s' % (n, g, wv)
            if abs(a - b) > Fraction(1, 10 ** inf[3]):
                return 'value %d: Float %s read back as %s: differs by more than 1e-%d' % (n, wv, g, inf[3])
        elif g != wv:
            return 'value %d: wrote %s, read back %s' % (n, wv, g)
    if content[:len(pre)] != pre:
        return 'the %d bytes before the start position were changed' % len(pre)
    # the text of every numeric directive is what the C library writes for an argument of the named type
    at = len(pre)
    for t in texts:
        k = content.find(t, at)
        if k < 0:
            return 'the text %r that snprintf writes for a numeric directive is not in what was written (%r)' % (t[:80], content[len(pre):][:120])
        at = k + len(t)
    if wpos != len(content):
        return 'writer returned position %d, the sink holds %d bytes' % (wpos, len(content))
    if rpos != wpos:
        return 'reader returned position %d, %d characters were written up to position %d' % (rpos, len(content) - len(pre), wpos)
    return None


def c_float_roundtrip(ps, bits):
    """bit pattern of strtod(snprintf("%<ps>", x))"""
    import struct
    x = struct.unpack('<d', struct.pack('<Q', bits))[0]
    txt = ('%' + ps.replace('_', ' ').replace('l', '').replace('L', '')) % x
    return struct.unpack('<Q', struct.pack('<d', float(txt)))[0]


def has_eg(case):
    return any(t[0] == 'N' and t.split('/', 1)[0][-1] in 'eEgG' for t in case.split('|', 1)[1].split(' ') if t)


def spec_line(case):
    """what must come back: the values that were written (same syntax as the reader part of a transcript)"""
    try:
        out = []
        for i in map(tok_info, parse_case(case)[4]):
            if i[0] == 'v':
                out.append('i%d' % i[2] if i[1] == 'i' else 'f%016x' % i[2] if i[1] == 'f' else 's' + i[2].hex())
        return 'R' + ','.join(out)
    except Exception:
        return 'BADCASE'


def corr(case, impl, model):
    if impl == model:
        return None
    a, b = impl.split('|'), model.split('|')
    for n, (x, y) in enumerate(zip(a, b)):
        if x != y:
            return '%s: implementation %s / model %s' % ('written text' if n == 0 else 'read back', x[:300], y[:300])
    return 'transcript shapes differ: %s / %s' % (impl[:200], model[:200])


def nontrivial(case, impl):
    if '|X' in case or ' X' in case:
        return True         # raw scanner text: every case carries white space, signs, prefixes, overflow or junk
    try:
        K, pre, rest, mode, toks = parse_case(case)
        vals = [i for i in map(tok_info, toks) if i[0] == 'v']
    except Exception:
        return False
    if len(vals) > 1:
        return True
    for v in vals:
        if v[1] == 's' and any(b in ESCAPED or b >= 128 for b in v[2]):
            return True
        if v[1] == 'i' and (v[2] < 0 or v[2] >= 2**31):
            return True
        if v[1] == 'f':
            q = float_q(v[2])
            if q is not None and (q.denominator != 1 or abs(q) >= 2**53):
                return True
    return False


# shrinking: the token list, with String values opened up into one pseudo token per byte
def split(case):
    hd, body = case.split('|', 1)
    out = []
    for t in body.split(' '):
        if t.startswith('$s'):
            out.append('$s(')
            h = t[2:]
            out += ['b' + h[i:i + 2] for i in range(0, len(h), 2)]
            out.append(')')
        elif t:
            out.append(t)
    return hd, out


def join(hd, toks):
    out, cur = [], None
    for t in toks:
        if t == '$s(':
            if cur is not None: out.append('$s' + cur)
            cur = ''
        elif t[0] == 'b' and len(t) == 3:
            if cur is not None: cur += t[1:]
        else:
            if cur is not None:
                out.append('$s' + cur); cur = None
            if t != ')':
                out.append(t)
    if cur is not None:
        out.append('$s' + cur)
    return hd + '|' + ' '.join(out)


EG_CORPUS = [
    'S:::G|Ne/le:000012688b70e62b',                   # 1e-310 written with %e: subnormal text (strtod reports ERANGE, value correct)
    'F:::G|N.17g/lg:0000000000000001 L2c $i7',        # smallest denormal, then a second value, File
    'S:::G|N.3e/lf:0010000000000000',                 # DBL_MIN printed with %.3e -> 2.225e-308, below DBL_MIN
    'S:::G|N.3e/le:7fefffffffffffff',                 # DBL_MAX printed with %.3e -> 1.798e+308 = inf by strtod
]

CORPUS = [
    'S:::G|$s610a62225c64',                           # D7: a \n b " \ d  (escape letter appended after the decoded byte)
    'S:::E|$s0a',                                     # D7 shrunk
    'F:::G|$s5c',                                     # D7 on a File
    'S:::G|$f419d6f34547e6b75',                       # D8: 123456789.123456 read in single precision
    'F:7070:2c:E|$f3fb999999999999a',                 # D8: 0.1 from a File
    'S:::G|Nd/d:-5',                                  # F6: %d into a long zero-extends
    'F:::G|Ni/i:-2147483648 L2c Nd/d:-1',             # F6
    'F:::G|$s6162 L20 N5li/li:42',                    # D22: File: the literal " " eats the padding of %5li, position short
    'F:::G|$i7 L2c20 N8.3f/lf:400921fb54442d18',      # D22
    'S:::G|$i5 L25 $i7',                              # D23: "%%" advanced the position by 2
    'F:6d::G|L2025 N+li/li:10000000000',              # D23 (shrunk replay)
    'S::2c78:E|$f4bb84900df3f6d36',                   # a %f text of exactly 64 characters (seeded change: 64-byte stack buffer in String_Format_To)
    'S:7070::G|N064ld/ld:-42 L2c20 $s6162',           # a zero-padded Int of exactly 64 characters, then a separator and a String
    'S:::G|N+hhd/hhd:-1',                             # %hhd: -1 read back as 255 (narrow sign restoration)
    'F::2c78:E|Nhd/hi:-32768 L2c Njd/jd:-9223372036854775808 L2c Nzx/zx:-1',   # h, j, z modifiers at the edges
    'S:::G|Ntd/td:4294967297 L20 Nqd/qd:-4294967297 L20 Nlld/lld:9223372036854775807',
    'S:7070:2c:G|$i123 L2c20 $s610a62 L3b $f405edd2f1a9fbe77',
    'S:::G|$i-9223372036854775808 L20 $i9223372036854775807',
    'S:::G|$s070809' + '0a0b0c0d5c27223f' + ' L2c $s ' + 'L2c $sff80fe25',
    'F:01ff:7a:G|$f8000000000000000 L3b $f0000000000000001 L3b $f7fefffffffffffff',
    'S:::G|$f3f80000000000000 L20 N.0f/lf:4004000000000000 L20 N#lx/li:255 L2c N08ld/ld:-42',
]


def run(ctx):
    quick = ctx.tier == 'quick'
    ctx.cov['rule'] = (
        'cases = sequences of 1..6 values (String over bytes 1..255 biased to the bytes String_Show escapes, the escape letters, '
        'bytes >= 0x80 and control characters; Int from a boundary grid (powers of 2 and 10 +-1, int32/int64 extremes) and random '
        'bit lengths; Float from a bit-pattern grid (zeros, subnormals, extremes, exact ties at the printed precision, decimal-looking '
        'values) and random exponent/mantissa) written with %$ or a numeric specification (flags + space 0 #, width, precision, l), '
        'separated by literal text (printable ASCII incl. %, white space inside and at the end) that cannot continue a numeric token, at start positions 0..40 behind arbitrary bytes, followed by '
        'arbitrary trailing text, through a String or a File, in one print_to/scan_from call or item by item with show_to/look_from; '
        'plus a boundary stream: single pieces (String show text, %f text of every length 8..316 = each decade of magnitude in both signs, '
        'Ints with width / zero-pad / hex specs, literals) whose written length is 2^k-1, 2^k, 2^k+1 for k = 4..12, alone and followed by a '
        'separator and a second value, at start 0 and > 0, String and File; plus every one-byte String; plus raw numeric text (white space, signs, 0x/0 prefixes, up to 24 digits, exponents -345..330, trailing junk) '
        'read with d i u x o (with and without l) and f/lf directives, for the correspondence of the scanner model only; a case is non-trivial when it has more than one value, or a String containing an escaped byte or '
        'a byte >= 0x80, or an Int that is negative or >= 2^31, or a Float that is not an integer below 2^53; '
        'distinct = distinct implementation transcripts')
    ctx.assumptions += [
        'C text tied by correspondence only: extracted Gallina model vs library built from the working tree (written text, positions, values read back)',
        'libc enters as a model (printf d/i/u/x/X/o/f with flags, width, precision; scanf integer, decimal float, %c, literals) validated against the '
        'real libc by the same correspondence; Float clause: strtod modelled as round-to-nearest-even',
        'oracle is independent of the model: values compared in Python (Float with exact rational arithmetic)']
    ctx.coq()
    model_broken = None
    try:
        drv = ctx.build_driver('RoundTrip')
    except vlib.ModelBuildError as e:
        # the model can no longer be regenerated from the source (a Generated.v pattern failed):
        # still look for a concrete failing input with the oracle alone
        drv, model_broken = None, str(e)
        ctx.notes.append('model build error: %s' % model_broken[-600:])
    h = ctx.build_harness('roundtrip.c')
    run_impl = lambda cs: ctx.run_lines(h, cs, args=[ctx.tmp])[1]
    run_model = (lambda cs: ctx.run_lines(drv, cs, args=['model'])[1]) if drv else None
    run_spec = lambda cs: [spec_line(c) for c in cs]
    d = vlib.Differential(ctx, 'roundtrip', run_impl, run_model, run_spec, oracle, corr, nontrivial, split, join)
    d_report = d.report

    def report(extra=None):
        d_report(extra)
        if model_broken and not any(not nf for _, nf in ctx.violations):
            ctx.violation('model', {'kind': 'the Coq model no longer builds against coq/Generated.v regenerated from the source',
                                    'detail': model_broken[-3000:], 'theorem_or_file': 'Extract_RoundTrip.v / Generated.v',
                                    'search': 'oracle clean on %d cases' % d.ncases}, no_failing_input=True)
    d.report = report
    # exponent-style Float directives (%e %g) are not modelled in Coq: the oracle alone decides them
    d2 = vlib.Differential(ctx, 'roundtrip_eg', run_impl, None, run_spec, oracle, corr, lambda c, i: True, split, join)
    rp = os.environ.get('VERIF_REPLAY')
    if rp:
        r = json.load(open(rp))
        cs = [r['case']] if 'case' in r else CORPUS
        dd = d2 if ('case' in r and has_eg(r['case'])) else d
        dd.feed(cs)
        for x in dd.oracle_fail + dd.corr_fail:
            print('REPLAY: %s\n  impl  %s\n  model %s\n  spec  %s' % (x[4], x[1], x[2], x[3]))
        dd.report()
        return
    bad = [c for c in CORPUS if not wellformed(c)]
    if bad:
        raise RuntimeError('corpus case not well-formed: %r' % bad[:1])
    d.feed(CORPUS, 'corpus')
    rng = ctx.rng
    # boundary lengths of single pieces, every writer, alone and followed by a separator and a second value,
    # start position 0 and > 0, String and File
    bnd = gen_boundary(rng, quick)
    for c in bnd:
        assert wellformed(c), c[:300]
    for i in range(0, len(bnd), 2000):
        d.feed(bnd[i:i + 2000], 'boundary')
    ctx.cov['boundary_cases'] = len(bnd)
    # every integer length modifier x conversion x values at the edges of the named C type
    mods = gen_mod_cases(rng, quick)
    for c in mods:
        assert wellformed(c), c[:300]
    d.feed(mods, 'modifiers')
    ctx.cov['modifier_cases'] = len(mods)
    # doubles at the edges of the range (subnormals, DBL_MIN, DBL_MAX) in exponent style: oracle only
    egs = gen_eg_cases(rng, quick)
    for c in egs:
        assert wellformed(c), c[:300]
    d2.feed(EG_CORPUS + egs, 'exponent-style')
    ctx.cov['exponent_style_cases'] = len(egs) + len(EG_CORPUS)
    # the same edge doubles with enough decimals in %f style that the text itself is a subnormal number (modelled)
    sub = []
    for b in [1, 2 ** 51, 2 ** 52 - 1, 2 ** 52, rng.randrange(1, 2 ** 52)]:
        for ps in ('.330f', '.1074f', '.400lf'):
            sub.append(arrange(rng, 'N%s/lf:%016x' % (ps, b | (rng.randrange(2) << 63)), True, rng.choice('SF'), 0, rng.random() < .5))
    d.feed(sub, 'subnormal-f')
    # every one-byte String, alone, String and File
    d.feed(['%s:::%s|$s%02x' % (rng.choice('SF'), rng.choice('GE'), b) for b in range(1, 256)], 'bytes')
    # two-byte Strings: a sample (quick) or all of them (thorough)
    if quick:
        pairs = [(rng.randrange(1, 256), rng.randrange(1, 256)) for _ in range(300)] + \
                [(a, b) for a in ESCAPED + [ord('n'), 65, 200] for b in ESCAPED + [ord('n'), ord('t'), 65, 200]]
    else:
        pairs = [(a, b) for a in range(1, 256) for b in range(1, 256)]
    cs = ['%s:::G|$s%02x%02x' % ('SF'[(a + b) % 2], a, b) for a, b in pairs]
    for i in range(0, len(cs), 5000):
        d.feed(cs[i:i + 5000], 'pairs')
    if not quick:
        alpha = ESCAPED + [ord('n'), ord('a'), 65, 200, 37]
        cs = ['S:::G|$s' + hexs([a, b, c, e]) for a in alpha for b in alpha for c in alpha for e in alpha]
        for i in range(0, len(cs), 5000):
            d.feed(cs[i:i + 5000], 'quads')
        # all exponents x a few mantissas
        cs = []
        for ex in range(0, 2047):
            for fr in (0, 1, 2**52 - 1, rng.randrange(2**52)):
                cs.append('%s:::G|$f%016x' % ('SF'[ex % 2], dbl_bits(rng.randrange(2), ex, fr)))
        for i in range(0, len(cs), 1000):
            d.feed(cs[i:i + 1000], 'exponents')
    n = 2500 if quick else 60000
    cases = []
    for i in range(n):
        if i % 4 == 0:
            c = gen_case(rng, 1, heavy_ok=(i % 40 == 0))
        else:
            c = gen_case(rng, 6, heavy_ok=(i % 40 == 1))
        cases.append(c)
    for c in cases:
        assert wellformed(c), c
    for i in range(0, n, 2000):
        d.feed(cases[i:i + 2000])
    # the scanner model on raw numeric text (correspondence only; the property says nothing about it)
    nraw = 800 if quick else 30000
    raw = [gen_raw_case(rng) for _ in range(nraw)]
    for i in range(0, nraw, 2000):
        d.feed(raw[i:i + 2000], 'raw')
    ctx.cov['raw_scanner_cases'] = nraw
    if not quick:
        # the same streams under AddressSanitizer: any write outside an allocation (String_Format_To,
        # String_Concat inside String_Look, the scanner's stores) ends the child and shows as a missing transcript
        try:
            ctx.build_lib(tag='asan', cflags=['-fsanitize=address', '-fno-omit-frame-pointer'])
            ha = ctx.build_harness('roundtrip.c', tag='asan', extra=['-fsanitize=address'])
            env = dict(os.environ, ASAN_OPTIONS='detect_leaks=0:abort_on_error=1')
            run_plain = d.run_impl
            d.run_impl = lambda cs: ctx.run_lines(ha, cs, args=[ctx.tmp], env=env)[1]
            sub = CORPUS + cases[:6000] + raw[:3000]
            for i in range(0, len(sub), 1000):
                d.feed(sub[i:i + 1000], 'asan')
            d.run_impl = run_plain
            ctx.cov['asan_cases'] = len(sub)
        except vlib.BuildError as e:
            ctx.notes.append('ASan build not available: %s' % str(e)[-300:])
    hist = {}
    for c in cases:
        for t in parse_case(c)[4]:
            k = t[0] + (t[1] if t[0] == '$' else '')
            hist[k] = hist.get(k, 0) + 1
    ctx.cov['token_histogram'] = hist
    nv, sl = {}, {}
    for c in cases:
        vs = [i for i in map(tok_info, parse_case(c)[4]) if i[0] == 'v']
        nv[len(vs)] = nv.get(len(vs), 0) + 1
        for v in vs:
            if v[1] == 's':
                b = min(len(v[2]) // 10 * 10, 100)
                sl['%d-%d' % (b, b + 9) if b < 100 else '100+'] = sl.get('%d-%d' % (b, b + 9) if b < 100 else '100+', 0) + 1
    ctx.cov['values_per_case'] = nv
    ctx.cov['string_lengths'] = sl
    ctx.cov['sources'] = {'String': sum(1 for c in cases if c[0] == 'S'), 'File': sum(1 for c in cases if c[0] == 'F')}

    def extra(dd):
        dd.feed([gen_case(rng, 4, heavy_ok=False) for _ in range(10 * min(n, 2000))])
    d.report(extra)
    d2.report(None)
