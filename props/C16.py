"""C16 — String behaves as a C-string value.

Coq: coq/StringModel.v (cells of the one heap allocation, libc routines on cells, String.c's
functions with the realloc sizes / memmove count re-extracted from the source into Generated.v),
coq/StringProofs.v, coq/Properties_C16.v.
Correspondence: harness/string_ops.c (white-box, tracking allocator with canaries, libc-maintained
reference buffer) vs the extracted model (cell by cell) and the abstract-string specification."""
import os, json, re
import vlib

ALPHA3 = [0x61, 0x62, 0x63]


def hx(bs):
    return ''.join('%02x' % b for b in bs)


def unhx(h):
    return [int(h[i:i + 2], 16) for i in range(0, len(h), 2)]


# ---------------------------------------------------------------- python shadow (generation only)
def find_sub(v, s):
    n = len(v)
    for i in range(len(s) - n + 1):
        if s[i:i + n] == v:
            return i
    return -1


def rnd_str(rng, alpha, n):
    return [rng.choice(alpha) for _ in range(n)]


def pick_needle(rng, alpha, s, stats=None):
    """Argument of rem/mem aimed at the case split of the proofs: empty, equal to the target,
    at the start / in the middle / at the end, with an overlapping second occurrence, absent."""
    kinds = ['empty', 'equal', 'start', 'middle', 'end', 'overlap', 'absent', 'random']
    k = rng.choice(kinds)
    v = None
    if k == 'empty':
        v = []
    elif k == 'equal':
        v = list(s)
    elif k == 'start' and len(s) >= 2:
        v = s[:rng.randrange(1, len(s))]
    elif k == 'end' and len(s) >= 2:
        v = s[rng.randrange(1, len(s)):]
    elif k == 'middle' and len(s) >= 3:
        i = rng.randrange(1, len(s) - 1)
        v = s[i:rng.randrange(i + 1, len(s))]
    elif k == 'overlap':
        # a needle with a border (u w u) that occurs overlapping itself if the target contains u w u w u
        for _ in range(8):
            if len(s) < 3:
                break
            i = rng.randrange(0, len(s) - 1)
            j = rng.randrange(i + 2, len(s) + 1)
            c = s[i:j]
            p = find_sub(c, s)
            if p >= 0 and find_sub(c, s[p + 1:]) >= 0 and find_sub(c, s[p + 1:]) < len(c) - 1:
                v = c
                break
    elif k == 'absent':
        for _ in range(8):
            c = rnd_str(rng, alpha, rng.randrange(1, 5))
            if find_sub(c, s) < 0:
                v = c
                break
        if v is None:
            v = list(s) + [alpha[0]]
    if v is None:
        k = 'random'
        v = rnd_str(rng, alpha, rng.randrange(0, 4))
    return k, v


def classify_needle(v, s):
    """what the rem/mem argument is with respect to the current abstract string"""
    if not v:
        return 'empty'
    if v == s:
        return 'equal'
    i = find_sub(v, s)
    if i < 0:
        return 'absent'
    j = find_sub(v, s[i + 1:])
    if 0 <= j < len(v) - 1:
        return 'overlap'
    if i == 0:
        return 'start'
    if i + len(v) == len(s):
        return 'end'
    return 'middle'


def gen_case(rng, maxops, stats=None):
    style = rng.choice(['abc', 'abc', 'abc', 'ab', 'a', 'bytes', 'long'])
    alpha = {'abc': ALPHA3, 'ab': ALPHA3[:2], 'a': ALPHA3[:1], 'long': ALPHA3,
             'bytes': [1, 2, 0x25, 0x7f, 0x80, 0xa5, 0xc3, 0xdd, 0xfe, 0xff]}[style]
    maxlen = 200 if style == 'long' else rng.choice([0, 1, 2, 3, 5, 8, 12])
    s = rnd_str(rng, alpha, rng.randrange(0, maxlen + 1))
    init = list(s)
    noarg = rng.random() < .04
    if noarg:
        s = []
    ops = []
    for _ in range(rng.randrange(1, maxops + 1)):
        r = rng.random()
        small = lambda: rnd_str(rng, alpha, rng.choice([0, 0, 1, 1, 2, 3, 5, maxlen]))
        if len(s) < 3 and maxlen >= 3 and rng.random() < .5:
            # keep the target long enough for start / middle / end / overlapping needles
            v = rnd_str(rng, alpha, rng.randrange(3, maxlen + 4))
            if rng.random() < .5:
                ops.append('a' + hx(v)); s = v
            else:
                ops.append(rng.choice('cp') + hx(v)); s = s + v
            continue
        if r < .10:
            v = small() if rng.random() < .8 else list(s)
            ops.append('a' + hx(v)); s = v
        elif r < .25:
            v = small() if rng.random() < .85 else list(s)
            ops.append(rng.choice('cp') + hx(v)); s = s + v
        elif r < .35:
            n = rng.choice([0, 1, len(s), len(s) + 1, max(0, len(s) - 1), rng.randrange(0, len(s) + 4), rng.randrange(0, 2 * len(s) + 2)])
            ops.append('z%d' % n); s = s[:n]
        elif r < .62:
            k, v = pick_needle(rng, alpha, s)
            ops.append('r' + hx(v))
            if stats is not None:
                c = classify_needle(v, s); stats['rem_' + c] = stats.get('rem_' + c, 0) + 1
            i = find_sub(v, s)
            if i >= 0:
                s = s[:i] + s[i + len(v):]
        elif r < .72:
            k, v = pick_needle(rng, alpha, s)
            ops.append('m' + hx(v))
            if stats is not None:
                c = classify_needle(v, s); stats['mem_' + c] = stats.get('mem_' + c, 0) + 1
        elif r < .80:
            v = list(s)
            q = rng.random()
            if q < .3 and v: v[rng.randrange(len(v))] = rng.choice(alpha)
            elif q < .45: v = v + [rng.choice(alpha)]
            elif q < .6 and v: v = v[:-1]
            elif q < .7: v = small()
            ops.append(rng.choice('ke') + hx(v))
        elif r < .825:
            o = rng.choice('ACPRMKEyy')
            if o in 'CP' and len(s) > 120:
                o = 'A'
            ops.append(o)
            if o in 'CP': s = s + s
            elif o == 'R': s = []
        elif r < .85: ops.append('l')
        elif r < .87: ops.append('s')
        elif r < .90: ops.append('h')
        else:
            pos = rng.choice([0, len(s), len(s), max(0, len(s) - 1), rng.randrange(0, len(s) + 1), len(s) + 1, len(s) + rng.randrange(1, 6)])
            ps = []
            lastlit = False
            cur = pos
            for _ in range(rng.randrange(1, 4)):
                kind = rng.choice('LSDX') if len(s) <= 120 else rng.choice('LSD')
                if kind == 'L' and lastlit:
                    kind = 'S'
                if kind == 'L':
                    t = [c for c in rnd_str(rng, alpha, rng.randrange(1, 4)) if c != 0x25] or [0x2e]
                    ps.append('L' + hx(t))
                elif kind == 'S':
                    t = small()
                    ps.append('S' + hx(t))
                elif kind == 'X':
                    t = list(s)
                    ps.append('X')
                else:
                    z = rng.choice([0, 7, -1, 10, -10, 99, 100, 12345, -2**63, 2**63 - 1, 2**31, rng.randrange(-2**63, 2**63)])
                    ps.append('D%d' % z); t = [ord(c) for c in str(z)]
                lastlit = kind == 'L'
                if cur <= len(s):           # piece by piece, as print_to_with does
                    s = s[:cur] + t
                cur += len(t)
            ops.append('f%d:%s' % (pos, ','.join(ps)))
    return ('N' if noarg else hx(init)) + '|' + ' '.join(ops)


# ---------------------------------------------------------------- transcripts
CR = re.compile(r'CRASH\(\d+\)')


def steps(line):
    return [p.split(';') for p in line.split(' | ')]


def oracle(case, impl, spec):
    if impl == 'SKIPPED':
        return None
    pi, ps = steps(impl), steps(spec)
    for n, a in enumerate(pi):
        if len(a) != 7:
            return 'step %d: %s' % (n, ';'.join(a)[:80])
        out, chars, alloc, cells, refout, refchars, flags = a
        if n >= len(ps):
            return 'more steps than the specification'
        b = ps[n]
        f0 = flags.split(',')[0] if flags else ''
        if f0 in ('CANARY', 'NOTERM', 'NOTOWNED'):
            return 'step %d: %s' % (n, {'CANARY': 'bytes behind the allocation were overwritten',
                                          'NOTERM': 'no terminator inside the allocation',
                                          'NOTOWNED': 'the buffer is no longer a live allocation of String.c'}[f0])
        if out != 'new' and out != refout:
            return 'step %d: result %s, the C library on the abstract string gives %s' % (n, out, refout)
        if chars != refchars:
            return 'step %d: characters %s, the C library on the abstract string gives %s' % (n, chars, refchars)
        if flags:
            why = {'HASHSTALE': 'hash(s) right after the operation (nothing else hashed since the hash right before it) is not hash_data over the current characters: the hash depends on history',
                   'HASHREF': 'hash(s) is not hash_data over its characters',
                   'HASHREPEAT': 'a second hash(s) call gives another value', 'HASHAGAIN': 'a later hash(s) call gives another value',
                   'HASHCOPY': 'a fresh String with the same characters hashes differently or is not eq',
                   'HASHFRESH': 'a newly created String (possibly at the address of one just deleted) does not hash to hash_data over its characters',
                   'LEN': 'len differs from strlen of the reference', 'CSTR': 'c_str differs from the reference',
                   'EQ': 'eq/cmp with an equal C string disagree'}
            return 'step %d: %s [%s]' % (n, why.get(f0, 'observer disagrees with libc on the reference buffer'), flags)
        if out != b[0]:
            return 'step %d: result %s, specification says %s' % (n, out, b[0])
        if chars != b[1]:
            return 'step %d: characters %s, specification says %s' % (n, chars, b[1])
        if not (len(chars) // 2 < int(alloc)):
            return 'step %d: terminator not inside the allocation of %s bytes' % (n, alloc)
    if len(pi) != len(ps):
        return 'implementation transcript has %d steps, specification %d' % (len(pi), len(ps))
    return None


def corr(case, impl, model):
    if impl == 'SKIPPED':
        return None
    a, b = steps(CR.sub('CRASH', impl)), steps(model)
    for n, (x, y) in enumerate(zip(a, b)):
        if len(x) != 7 or len(y) != 4:
            if x[:1] == y[:1] and len(x) == 1 and len(y) == 1:
                continue
            return 'step %d: implementation %s / model %s' % (n, ';'.join(x)[:60], ';'.join(y)[:60])
        if x[0] != y[0] or x[1] != y[1] or x[2] != y[2]:
            return 'step %d: implementation %s / model %s' % (n, ';'.join(x[:3]), ';'.join(y[:3]))
        ci, cm = x[3], y[3]
        if ci != cm and (len(ci) != len(cm) or any(cm[k:k + 2] != '??' and cm[k:k + 2] != ci[k:k + 2] for k in range(0, len(cm), 2))):
            return 'step %d: allocation contents %s / model %s' % (n, ci, cm)
    if len(a) != len(b):
        return 'length %d vs %d' % (len(a), len(b))
    return None


def nontrivial(case, impl):
    """a rem that deleted a non-empty proper part of the string, or a formatted write that
    cut the string strictly inside"""
    toks = case.split('|', 1)[1].split(' ')
    st = steps(impl)
    for n, t in enumerate(t for t in toks if t):
        if n + 1 >= len(st) or len(st[n + 1]) != 7 or len(st[n]) != 7:
            break
        before, after = st[n][5], st[n + 1][5]
        if t[0] == 'r' and len(t) > 1 and after and before != after:
            return True
        if t[0] == 'f' and 0 < int(t[1:].split(':')[0]) < len(before) // 2:
            return True
    return False


def split(case):
    init, ops = case.split('|', 1)
    return init, ops.split(' ')


def join(init, toks):
    return init + '|' + ' '.join(toks)


CORPUS = [
    '616263646566|r6364 s l',                # D6: "abcdef" rem "cd" gave "abedef"
    '61626362636162|r62636162 s',            # D6: "abcbcab" rem "bcab" changed nothing
    '616263646566|r6162 s l h',              # D6: needle at the start (size_t wrap-around in the count)
    '616263|r78 s l',                        # D6: absent needle dereferenced NULL; now ValueError, unchanged
    '616161|r6161 s r6161 r61 r61 l',        # overlapping occurrences: the first one goes
    '6162616261|r616261 s m6261 m62 m',       # overlap; mem of the empty string
    '|r l a61 r61 l r61',                    # empty string: rem "" fine, rem of the last char, rem from empty raises
    '616263|z10 l s c6465 s z2 s z2 z0 l',   # grow keeps the string, shrink cuts
    '616263|f3:S646566 s f1:L58,D-42,S79 s f0:D0 f9:L7a s l',
    '6162|a6162 e6162 k6162 k61 k616261 k6163 c p s h',
    '61626364|C s l',                        # concat(s, s): strcat on overlapping buffers gave 9 characters for "abcd"
    '616263|P s C l h',                      # append(s, s), twice
    '61626364|A s l',                        # assign(s, s): strcpy read the block realloc had just released
    '616263|z9 A s c64 s',                   # assign(s, s) shrinking a larger allocation
    '616263|M K E R s l R C A s',            # the String itself as needle / comparand; rem(s, s) empties it
    'N|l s h c6162 y s z5 y l c63 s',        # new(String) without arguments; copies
    '616263|f3:X s l',                       # print_to(s, len, "%s", s): the argument was read after realloc released it
    '616263|f1:X,L2d,X s f0:L3c,X,L3e s f9:X s',
    '616263646566|h r6364 h h z2 h a6161 h c62 h f1:S63 h h',   # seeded C16-r6-2: hash remembered per buffer address across in-place mutation   # the String itself among the pieces, evaluated piece by piece
]


def exhaustive_cases(maxlen, alpha, nops):
    """every initial string of length <= maxlen, every sequence of nops (rem|mem) with every needle of length <= maxlen"""
    strs = [[]]
    lvl = [[]]
    for _ in range(maxlen):
        lvl = [s + [c] for s in lvl for c in alpha]
        strs += lvl
    out = []
    import itertools
    for s in strs:
        for seq in itertools.product(strs, repeat=nops):
            out.append(hx(s) + '|' + ' '.join('r' + hx(v) for v in seq) + ' m' + hx(seq[0]))
    return out


BOUNDARY = [0, 1, 7, 8, 15, 16, 17, 31, 32, 33, 63, 64, 65, 127, 128, 129, 255, 256, 257, 1023, 1024, 1025, 4095, 4096, 4097]


def boundary_cases(rng, thorough=False):
    """lengths around every power of two / plausible local buffer size, for the piece of a formatted write (literal, %s,
    the String itself) at positions len, len-1, 0 (and behind the end), each followed by a second write at the returned
    position, and for the arguments of assign / concat / append / resize / self-concat / copy"""
    out = []
    txt = lambda n: rnd_str(rng, ALPHA3, n)
    for L in BOUNDARY:
        lean = L >= 1023 and not thorough      # quick tier: the long lengths only in the main variants (driver time)
        inits = [5] if lean else [0, 5] + ([L] if thorough and L > 5 else [])
        for k in inits:
            s0 = txt(k)
            poss = [k] if lean else sorted({k, max(0, k - 1), 0} | ({k + 1, k + 3} if thorough else set()))
            for pos in poss:
                for kind in 'SL':
                    if kind == 'L' and L == 0:
                        continue
                    t = txt(L)
                    nxt = pos + L
                    out.append('%s|f%d:%s%s f%d:L21 s l f%d:D-7,S%s s l' % (hx(s0), pos, kind, hx(t), nxt, nxt + 1, hx(txt(2))))
                # two pieces in one format: a literal up to the boundary, then %s
                out.append('%s|f%d:L2e,S%s,L2e s l' % (hx(s0), pos, hx(txt(L))))
        sL = txt(L)
        out.append('%s|f%d:X s l f%d:L21 s l' % (hx(sL), L, 2 * L))          # the String itself, |s| = L
        out.append('%s|f0:X,X s l' % hx(sL))
        hh = '' if lean else ' h'
        out.append('|a%s s l%s c%s s l' % (hx(sL), hh, hx(txt(L))))
        out.append('%s|c%s s l p%s s l%s' % (hx(txt(1)), hx(sL), hx(txt(L)), hh))
        out.append('%s|C s l A s y s l%s' % (hx(sL), hh))
        out.append('%s|z%d s l z%d s l c%s s l z%d s l' % (hx(sL), L + 1, max(0, L - 1), hx(txt(3)), L))
        out.append('|z%d l c%s s z%d s l z0 l' % (L, hx(sL), L))
        if L:
            out.append('%s|r%s s l m%s' % (hx(txt(2) + sL + txt(2)), hx(sL), hx(sL[:L - 1])))
    return out


MENU = ['f1:X', 'a', 'a6162', 'c', 'c61', 'c6261', 'C', 'A', 'z0', 'z1', 'z3', 'r61', 'r6162', 'r', 'R', 'f1:S62', 'f0:D7', 'f9:L7a', 'y']


def exhaustive_ops(maxlen, nops):
    """every initial string over {a,b} up to maxlen (and new without arguments), every sequence of nops operations of MENU,
    observed by c_str/len/hash at the end"""
    import itertools
    strs, lvl = [[]], [[]]
    for _ in range(maxlen):
        lvl = [x + [c] for x in lvl for c in ALPHA3[:2]]
        strs += lvl
    inits = ['N'] + [hx(x) for x in strs]
    return [i + '|' + ' '.join(seq) + ' s l h' for i in inits for seq in itertools.product(MENU, repeat=nops)]


def run(ctx):
    quick = ctx.tier == 'quick'
    ctx.cov['rule'] = ('seeded operation histories (assign/concat/append/resize/rem/mem/cmp/eq/len/c_str/hash/print_to with literal, %s and %li '
                       'pieces at positions inside, at and beyond the end) over alphabets of 1, 2, 3 letters (so that repeated and overlapping '
                       'occurrences are frequent), awkward bytes (0x01, %, 0x7f..0xff, the allocator poison values) and strings up to 200 bytes; '
                       'after EVERY operation hash(s) is taken first and last among all Strings hashed, directly before and after the '
                       'operation too, and compared with hash_data over the reference bytes; a fresh String is created at a just-released '
                       'address and hashed; a share of the histories runs again with an allocator that reallocates in place; '
                       'rem/mem arguments are drawn per class: empty, equal to the target, at the start, in the middle, at the end, '
                       'overlapping a second occurrence, absent (class counts in coverage.classes); a boundary stream with piece / argument '
                       'lengths 0,1,7,8,15..17,31..33,63..65,127..129,255..257,1023..1025,4095..4097 for formatted writes (literal, %s, the String '
                       'itself; at len, len-1, 0; followed by a write at the returned position) and for assign/concat/append/resize/rem/copy; the String itself as argument of '
                       'assign/concat/append/rem/mem/cmp/eq; new without arguments; copies; plus every rem/mem over all strings <= 3 '
                       'of {a,b} (quick) / <= 4 with two removals (thorough) and every sequence of 2 (quick) / 3 (thorough) operations of a 19-entry menu from every string <= 2 / <= 3. A case is non-trivial when a rem deleted a non-empty '
                       'proper part of the string or a formatted write cut it strictly inside; distinct = distinct implementation transcripts')
    ctx.assumptions += ['C text tied by correspondence only: extracted Gallina model vs library built from the working tree; '
                        'white-box (src/String.c included with realloc/calloc/free redirected): allocation size and every byte of the '
                        'allocation compared with the model after every operation',
                        'libc routines (strlen/strcpy/strcat/strstr/strcmp/memmove/memset/vsprintf) are modelled on cells in StringModel.v, '
                        'not verified; "%s"/"%li" rendering is the model\'s own (render), compared with libc by the harness']
    ctx.coq()
    drv = ctx.build_driver('StringM')
    h = ctx.build_harness('string_ops.c', whitebox='String')
    henv = dict(os.environ, H_TIMEOUT=os.environ.get('H_TIMEOUT', '6'))

    def chunked(exe, env):
        """run the harness in chunks; once a chunk shows many crashes / hangs (a broken library: every such case costs
        the watchdog's seconds) the remaining cases of the batch are not run (their lines read SKIPPED and are ignored)"""
        def f(cs):
            out, bad = [], 0
            for i in range(0, len(cs), 100):
                part = cs[i:i + 100]
                if bad > 12:
                    out += ['SKIPPED'] * len(part)
                    continue
                lines = ctx.run_lines(exe, part, env=env, timeout=900)[1]
                lines += ['SKIPPED'] * (len(part) - len(lines))
                bad += sum(1 for l in lines if 'TIMEOUT' in l or 'CRASH(' in l)
                out += lines[:len(part)]
            return out
        return f
    run_impl = chunked(h, henv)
    run_model = lambda cs: ctx.run_lines(drv, cs, args=['model'])[1]
    run_spec = lambda cs: ctx.run_lines(drv, cs, args=['spec'])[1]
    d = vlib.Differential(ctx, 'string', run_impl, run_model, run_spec, oracle, corr, nontrivial, split, join)
    rp = os.environ.get('VERIF_REPLAY')
    if rp:
        r = json.load(open(rp))
        d.feed([r['case']] if 'case' in r else CORPUS)
        for x in d.oracle_fail + d.corr_fail:
            print('REPLAY: %s\n  impl  %s\n  model %s\n  spec  %s' % (x[4], x[1], x[2], x[3]))
        d.report()
        return
    d.feed(CORPUS, 'corpus')
    stats = {}
    n = 2000 if quick else 100000
    if d.oracle_fail:
        n = 400          # the corpus already fails: a short random stream is enough for the report
    maxops = 40
    cases = [gen_case(ctx.rng, maxops if i % 4 else 6, stats) for i in range(n)]
    for i in range(0, n, 2000):
        d.feed(cases[i:i + 2000])
    ex = exhaustive_cases(3, ALPHA3[:2], 1) if quick else exhaustive_cases(4, ALPHA3[:2], 2)
    for i in range(0, len(ex), 4000):
        d.feed(ex[i:i + 4000])
    bd = boundary_cases(ctx.rng, thorough=not quick)
    for i in range(0, len(bd), 200):
        d.feed(bd[i:i + 200])
    ex2 = exhaustive_ops(2, 2) if quick else exhaustive_ops(3, 3)
    for i in range(0, len(ex2), 4000):
        d.feed(ex2[i:i + 4000])
    # the same histories with an allocator whose realloc keeps the ADDRESS whenever the new size fits the block's
    # capacity (shrinking, small growth): in-place mutation, as with a real allocator
    di = vlib.Differential(ctx, 'string_inplace', chunked(h, dict(henv, H_INPLACE='1')), run_model, run_spec,
                           oracle, corr, nontrivial, split, join)
    di.feed(CORPUS)
    ni = 600 if quick else 20000
    for i in range(0, min(n, ni), 2000):
        di.feed(cases[i:min(n, ni)][:2000] if i == 0 else cases[i:min(i + 2000, ni)])
    di.feed(bd[::7] if quick else bd)
    di.report()
    ctx.cov['classes'] = dict(sorted(stats.items()), exhaustive_rem_cases=len(ex), exhaustive_op_sequences=len(ex2),
                              boundary_length_cases=len(bd), inplace_allocator_cases=di.ncases)

    if not quick:
        # the same stream under AddressSanitizer (exact allocations, no canaries)
        try:
            ctx.build_lib(tag='asan', cflags=['-fsanitize=address', '-fno-omit-frame-pointer'])
            ha = ctx.build_harness('string_ops.c', tag='asan', whitebox='String', extra=['-DH_ASAN', '-fsanitize=address', '-fno-omit-frame-pointer'])
            env = dict(henv, ASAN_OPTIONS='detect_leaks=0:abort_on_error=1', H_TIMEOUT='10')
            da = vlib.Differential(ctx, 'string_asan', chunked(ha, env), run_model, run_spec,
                                   oracle, corr, nontrivial, split, join)
            da.feed(CORPUS)
            for i in range(0, min(n, 20000), 2000):
                da.feed(cases[i:i + 2000])
            da.report()
        except vlib.HarnessBuildError as e:
            ctx.notes.append('ASan harness not built: %s' % str(e)[-300:])

    def extra(dd):
        dd.feed([gen_case(ctx.rng, 12) for _ in range(6000)])
    d.report(extra)
