"""C01 — the collector never reclaims a reachable object, and every collection terminates.

Proof side: coq/Properties_C01.v (model coq/HeapGraph.v + coq/MarkSweep.v, proofs
coq/MarkSweepProofs.v).  Correspondence side: harness/gc_graph.c builds graphs of REAL Cello
objects from a script, ocaml/Mark_driver.ml runs the extracted model (mark bits, survivors)
and the extracted executable reachability (specification) on the same script.

  oracle         every node the specification calls reachable is alive after every collection
                 (forced, narrowed, threshold-triggered), no probe destructor ran on it, canaries
                 intact, and every collection ran to completion (no crash / timeout)
  correspondence model marks  is a subset of  implementation mark bits (white-box, after GC_Mark)
                 model survivors  is a subset of  implementation survivors
                 (conservative stack scanning may retain more than the model, never less)
"""
import os, json, re, time
import vlib

REGK = 'SRBALTEUYZWFVPIDG'
LEAFK = 'IDG'            # managed leaf objects: new(Int), new(Float), new(String)
F1_SIG = 'mark-recursion-depth'
MAX_CHAIN_REGULAR = 20000


# ----------------------------------------------------------------------------- script builder
class Sim:
    """Abstract heap the generator keeps so that every script is a VALID program: it only uses
    pointers it can still reach, a Box owns its target exclusively, raw tuples are acyclic,
    explicit del only hits objects nothing else refers to."""

    def __init__(self, rng):
        self.rng, self.n, self.toks = rng, {}, []
        self.stack, self.tls, self.owned, self.dead = set(), {}, set(), set()
        self.nid = 0
        self.qcfg, self.fin_done = {}, set()      # finaliser probes: F id -> (late id, kind, place)
        self.ids = []
        self._reach = None

    # -- bookkeeping
    def emit(self, t): self.toks.append(t)
    def dirty(self): self._reach = None
    def isreg(self, i): return self.n[i]['k'] in REGK

    def ptrs(self, i):
        nd = self.n[i]
        if nd['k'] in 'SsRrBWVP': return [x for x in nd['f'] if x]
        if nd['k'] in 'IDG': return []
        if nd['k'] == 'F': return []
        if nd['k'] in 'TEYZ': return list(nd['kv'].values())
        return list(nd['items'])

    def _grow(self, seen, start):
        """close `seen` under the trace edges, starting from the words in `start` (handed to GC_Mark_Item)"""
        work = []

        def hand(q):
            if q and q not in self.dead and self.isreg(q) and q not in seen:
                seen.add(q); work.append(q)

        def trace(i):
            st = [i]
            while st:
                j = st.pop()
                if self.n[j]['k'] in 'UuV':          # items / fields are handed to GC_Mark_And_Recurse
                    for p in self.ptrs(j):
                        if self.isreg(p): hand(p)
                        else: st.append(p)          # raw object: GC_Recurse without a mark bit
                else:
                    for p in self.ptrs(j): hand(p)
        for q in start:
            if isinstance(q, tuple): trace(q[1])    # ('trace', id): the contents of a root-flagged object
            else: hand(q)
        while work: trace(work.pop())

    def reach(self):
        """registered nodes the collector must keep (same edges as the Coq `reach`)"""
        if self._reach is not None: return self._reach
        seen = set()
        start = list(self.tls.values())
        start += [('trace', i) for i, nd in self.n.items() if nd['root'] and self.isreg(i) and i not in self.dead]
        start += list(self.stack)
        self._grow(seen, start)
        self._reach = seen
        return seen

    def grew(self, holder, t):
        """an edge holder -> t (or a root, holder None) was ADDED: update the cached reach set in place"""
        if self._reach is None: return
        if holder is None or (self.isreg(holder) and (holder in self._reach or self.n[holder]['root'])):
            if self.isreg(t): self._grow(self._reach, [t])
            elif holder is not None and self.n[holder]['k'] in 'Uu': self._reach = None     # raw object behind a Tuple item
        elif not self.isreg(holder):
            self._reach = None                                   # raw holder: may sit behind a Tuple item

    def usable(self, i):
        """may the program still use pointer i ?"""
        if i in self.dead: return False
        if not self.isreg(i): return self.clean(i)
        return i in self.reach() or i in self.stack or self.n[i]['root']

    def clean(self, i, seen=None):
        """raw object without dangling pointers (through raw objects it leads to)"""
        seen = seen if seen is not None else set()
        if i in seen: return True
        seen.add(i)
        for p in self.ptrs(i):
            if p in self.dead: return False
            if self.isreg(p):
                if not (p in self.reach() or p in self.stack or self.n[p]['root']): return False
            elif not self.clean(p, seen): return False
        return True

    def targets(self):
        return [i for i in self.n if i not in self.owned and self.usable(i)]

    def subjects(self, kinds):
        return [i for i in self.n if self.n[i]['k'] in kinds and self.usable(i)]

    def pick(self, pred, tries=40):
        """a random node satisfying pred (rejection sampling; None when none is found)"""
        ids = self.ids
        if not ids: return None
        for _ in range(tries):
            i = ids[self.rng.randrange(len(ids))]
            if pred(i): return i
        return None

    def pick_target(self, holder=None):
        return self.pick(lambda t: t not in self.owned and self.usable(t) and (holder is None or ok_edge(self, holder, t)))

    def pick_subject(self, kinds, avoid=()):
        return self.pick(lambda i: self.n[i]['k'] in kinds and i not in avoid and self.usable(i))

    def indegree(self, t):
        c = sum(1 for i in self.n if i != t and i not in self.dead and t in self.ptrs(i))
        c += sum(1 for i in self.n if i == t and t in self.ptrs(i))
        return c + sum(1 for v in self.tls.values() if v == t)

    # -- operations
    def new(self, k, root=False):
        self.nid += 1
        i = self.nid
        self.n[i] = {'k': k, 'root': root and k in REGK, 'f': [0, 0] if k in 'SsWV' else [0], 'items': [], 'kv': {}}
        self.stack.add(i); self.ids.append(i)
        self.emit('N%d%s%s' % (i, k, '!' if self.n[i]['root'] else ''))
        self.grew(None, i)
        self.limit_stack(i)
        return i

    def copy(self, src):
        self.nid += 1
        i = self.nid
        sn = self.n[src]
        self.n[i] = {'k': sn['k'].upper(), 'root': False, 'f': list(sn['f']), 'items': list(sn['items']), 'kv': dict(sn['kv'])}
        self.stack.add(i); self.ids.append(i)
        self.emit('C%d=%d' % (i, src)); self.dirty()
        self.limit_stack(i)
        return i

    def limit_stack(self, keep):
        """the harness has 8192 stack slots: never hold more than 4000 pointers there"""
        if len(self.stack) > 4000:
            for j in sorted(self.stack)[:500]:
                if j != keep and j not in self.owned: self.drop(j)

    VIEW_INPUTS = 'ALUTEYZ'
    ZIP_INPUTS = 'ALUTEYZIDG'       # a Zip only stores its inputs: leaf objects too (such a Zip is not iterated)

    def view(self, k, a=0, b=0):
        """heap view object (z Zip(a, b), l Slice(a), m Map(a), f Filter(a), r Range) allocated with new(); the managed
        objects its constructor allocates take the following ids and are never used directly by the script"""
        i = self.nid + 1
        def mk(j, kind, f=(), items=()):
            self.n[j] = {'k': kind, 'root': False, 'f': list(f), 'items': list(items), 'kv': {}}
        if k == 'z':
            mk(i, 'P', [i + 1, i + 2]); mk(i + 1, 'U', items=[a, b]); mk(i + 2, 'U'); extra = [i + 1, i + 2]
        elif k == 'l':
            mk(i, 'P', [a, i + 1]); mk(i + 1, 'P', [i + 2]); mk(i + 2, 'I', []); extra = [i + 1, i + 2]
        elif k == 'r':
            mk(i, 'P', [i + 1]); mk(i + 1, 'I', []); extra = [i + 1]
        else:
            mk(i, 'P', [a]); extra = []
        self.nid = i + len(extra)
        self.ids.append(i)                       # the internal objects are not offered as targets or subjects
        self.owned.update(extra)
        self.stack.add(i)
        ins = '' if k == 'r' else ('=%d,%d' % (a, b) if k == 'z' else '=%d' % a)
        self.emit('V%d%s%s' % (i, k, ins)); self.dirty()
        return i

    def use(self, i): self.emit('O%d' % i)

    def chain(self, n, kind, tail=0):
        """singly linked chain of n nodes of one kind (R Ref, B Box, S struct, U Tuple cons cell, V user type with a
        Mark method): the first node points to `tail`, node i to node i-1; only the head stays in a stack slot"""
        first = self.nid + 1
        self.nid += n
        prev = tail
        for i in range(first, first + n):
            nd = {'k': kind, 'root': False, 'f': [0, 0] if kind in 'SV' else [0], 'items': [], 'kv': {}}
            if prev:
                if kind == 'U': nd['items'] = [prev]
                else: nd['f'][0] = prev
                if kind == 'B': self.owned.add(prev)
            self.n[i] = nd
            prev = i
        self.ids.extend(range(first, first + n))
        self.stack.add(first + n - 1)
        self.emit('L%d,%d,%s,%d' % (first, n, kind, tail)); self.dirty()
        return first, first + n - 1

    def bulk(self, c, mode, n):
        """container c is built from n fresh probe structs that are allocated while the operation consumes its
        argument (concat / assign with a lazily allocating iterable, or a loop of allocate + set)"""
        first = self.nid + 1
        self.nid += n
        nd = self.n[c]
        if mode == 'a': nd['items'] = []
        for i in range(first, first + n):
            self.n[i] = {'k': 'S', 'root': False, 'f': [0, 0], 'items': [], 'kv': {}}
            self.ids.append(i)
            if nd['k'] in 'TEYZ': nd['kv'][i] = i
            else: nd['items'].append(i)
        self.emit('B%d,%s,%d,%d' % (c, mode, n, first)); self.dirty()
        return list(range(first, first + n))

    def store(self, i, slot, t):
        old = self.n[i]['f'][slot]
        self.n[i]['f'][slot] = t
        self.emit('P%d.%d=%d' % (i, slot, t))
        if old or not t: self.dirty()
        else: self.grew(i, t)

    def insert(self, i, t, key=None):
        nd = self.n[i]
        replaced = False
        if nd['k'] in 'TEYZ':
            if nd['k'] in 'YZ': key = t                  # the key IS the pointer
            elif key is None: key = self.rng.randrange(0, 64)
            replaced = key in nd['kv']
            nd['kv'][key] = t
        else:
            key = 0; nd['items'].append(t)
        self.emit('I%d,%d=%d' % (i, key, t))
        if replaced: self.dirty()
        else: self.grew(i, t)

    def remove(self, i):
        nd = self.n[i]
        if nd['k'] in 'TEYZ':
            if not nd['kv']: return False
            key = self.rng.choice(sorted(nd['kv'])); del nd['kv'][key]
        else:
            if not nd['items']: return False
            key = self.rng.randrange(len(nd['items'])); nd['items'].pop(key)
        self.emit('D%d,%d' % (i, key)); self.dirty()
        return True

    def keep(self, i):
        if i not in self.stack: self.stack.add(i); self.emit('K+%d' % i); self.grew(None, i)

    def drop(self, i):
        if i in self.stack: self.stack.discard(i); self.emit('K-%d' % i); self.dirty()

    def tls_set(self, slot, t):
        old = slot in self.tls
        self.tls[slot] = t; self.emit('T+%d=%d' % (slot, t))
        if old: self.dirty()
        else: self.grew(None, t)

    def tls_rem(self, slot):
        if slot in self.tls: del self.tls[slot]; self.emit('T-%d' % slot); self.dirty()

    def delete(self, i):
        self.stack.discard(i); self.dead.add(i); self.emit('X%d' % i); self.dirty()

    def collect(self, narrow=False):
        # three kinds of forced collection: full stack scan, narrowed scan, exact stack pass
        ch = self.rng.choice('HE') if narrow else self.rng.choice('GGE')
        self.emit(ch)
        if ch == 'E': self.finalise()

    def exact(self):
        self.emit('E'); return self.finalise()

    def finconfig(self, f, kind, place):
        """what the finaliser of F node f does: allocate node lid of kind S/W, publish it into place =
        ('K',) stack slot | ('T', slot) TLS entry | ('P', holder, field)"""
        self.nid += 1
        lid = self.nid
        self.qcfg[f] = (lid, kind, place)
        ps = {'K': 'K', 'T': 'T%d' % place[1] if place[0] == 'T' else '', 'P': 'P%d.%d' % (place[1], place[2]) if place[0] == 'P' else ''}[place[0]]
        self.emit('Q%d=%d%s,%s' % (f, lid, kind, ps))
        return lid

    def pending_finalisers(self):
        """F nodes that a collection could finalise now"""
        r = self.reach()
        return [f for f in self.n if self.n[f]['k'] == 'F' and f not in self.dead and f not in self.fin_done
                and f not in r and not self.n[f]['root']]

    def finalise(self):
        """an exact collection (E) frees every unreachable F node; its finaliser allocates and publishes.
        returns False when a publication target no longer exists"""
        ok = True
        for f in sorted(self.pending_finalisers()):
            self.fin_done.add(f); self.dead.add(f)
            if f not in self.qcfg: continue
            lid, kind, place = self.qcfg[f]
            if lid in self.n: ok = False; continue
            self.n[lid] = {'k': kind, 'root': False, 'f': [0, 0], 'items': [], 'kv': {}}
            self.ids.append(lid)
            if place[0] == 'K': self.stack.add(lid)
            elif place[0] == 'T': self.tls[place[1]] = lid
            else:
                h = place[1]
                if h in self.n and h not in self.dead and self.usable(h): self.n[h]['f'][place[2]] = lid
                else: ok = False
            self.dirty()
        return ok

    def burst(self, n): self.emit('M%d' % n)

    def link2(self, holder, t):
        """deterministic variant of link (field 0)"""
        k = self.n[holder]['k']
        if k in 'SsRrWV': self.store(holder, 0, t)
        else: self.insert(holder, t, key=(t if k in 'YZ' else 7))

    def link(self, holder, t):
        """make holder point to t by whatever its kind offers"""
        k = self.n[holder]['k']
        if k in 'SsWV': self.store(holder, self.rng.randrange(2), t)
        elif k in 'Rr': self.store(holder, 0, t)
        elif k == 'B':
            return False
        else: self.insert(holder, t)
        return True

    def script(self): return ' '.join(self.toks)


TLS_SPECIAL = list(range(20, 30))      # keys "__x" "_" "" (200 x L) "__session" "__" "__GC2" "__Exceptions" "__G" "key with spaces"


def tls_slot(rng, avoid=()):
    """a thread-local key: half of the time one of the unusual but legal shapes"""
    pool = [x for x in (TLS_SPECIAL if rng.random() < .5 else range(1, 9)) if x not in avoid]
    return rng.choice(pool or [x for x in range(1, 19) if x not in avoid])


def attach(s, t, rng, via=None):
    """make t reachable through a fresh or existing holder chosen at random; returns holder"""
    k = via or rng.choice('SRALTEUYZ')
    h = s.new(k)
    s.link(h, t)
    return h


def root_somehow(s, i, rng, tlsslot=None):
    """install one of the three root kinds for node i, then drop the stack slot of creation"""
    kind = rng.choice(['stack', 'tls', 'holder', 'holder', 'tls'])
    if kind == 'stack':
        s.keep(i)
        return ('stack', i)
    if kind == 'tls':
        slot = tlsslot if tlsslot is not None else tls_slot(rng, avoid=s.tls)
        s.tls_set(slot, i); s.drop(i)
        return ('tls', slot)
    hk = rng.choice('RSALTEUYZ')
    h = s.new(hk, root=True)
    s.link(h, i); s.drop(i); s.drop(h)
    return ('holder', h)


def unroot(s, r):
    if r[0] == 'stack': s.drop(r[1])
    elif r[0] == 'tls': s.tls_rem(r[1])
    else:
        # a root-flagged holder: cut its pointers
        h = r[1]
        nd = s.n[h]
        if nd['k'] in 'SsRr':
            for j, x in enumerate(nd['f']):
                if x: s.store(h, j, 0)
        else:
            while s.remove(h): pass


def gen_random(rng, maxnodes, maxops):
    s = Sim(rng)
    nops = rng.randrange(8, maxops)
    kinds = 'SSRRBALTEYZUUIDG' + ('sru' if rng.random() < .4 else '') + ('W' if maxnodes <= 200 else '')
    HOLD = 'SRWALTEYZUsru'
    pc = min(.08, 40.0 / nops)           # about 40 forced collections per script at most
    pb = min(.05, 25.0 / nops)
    for _ in range(nops):
        r = rng.random()
        if r < .30 and len(s.n) < maxnodes:
            k = rng.choice(kinds)
            i = s.new(k, root=rng.random() < .08)
            # give it some out-pointers
            for _ in range(rng.randrange(0, 3)):
                t = s.pick_target(i)
                if t is not None and k not in 'BIDG' and (t != i or rng.random() < .15): s.link(i, t)
            # and make something point to it
            if rng.random() < .7:
                h = s.pick(lambda h: s.n[h]['k'] in HOLD and h != i and s.usable(h) and ok_edge(s, h, i))
                if h is not None: s.link(h, i)
            if rng.random() < .15 and i not in s.owned and s.isreg(i): s.tls_set(tls_slot(rng), i)
            if rng.random() < .75: s.drop(i)
        elif r < .38 and len(s.n) < maxnodes:
            # a Box with a freshly made, exclusively owned target
            b = s.new('B')
            t = s.new(rng.choice('SRALTEYZU'))
            for _ in range(rng.randrange(0, 2)):
                x = s.pick_target(t)
                if x is not None and x != t: s.link(t, x)
            s.store(b, 0, t); s.owned.add(t); s.drop(t)
            h = s.pick_subject('SRALTEYZU', avoid=(b, t))
            if h is not None and rng.random() < .8: s.link(h, b)
            if rng.random() < .7: s.drop(b)
        elif r < .55:
            h = s.pick_subject(HOLD)
            if h is not None:
                t = s.pick_target(h)
                if t is not None: s.link(h, t)
        elif r < .66:
            h = s.pick_subject('ALTEYZUu')
            if h is not None: s.remove(h)
        elif r < .72:
            h = s.pick_subject('SRs')
            if h is not None: s.store(h, rng.randrange(len(s.n[h]['f'])), 0)
        elif r < .80:
            if s.stack: s.drop(rng.choice(sorted(s.stack)))
        elif r < .83:
            if s.tls: s.tls_rem(rng.choice(sorted(s.tls)))
        elif r < .85:
            t = s.pick(lambda t: s.isreg(t) and t not in s.owned and s.usable(t))
            if t is not None: s.tls_set(tls_slot(rng), t)
        elif r < .855 and len(s.n) < maxnodes:
            # copy of a usable object none of whose targets is exclusively owned
            c = s.pick(lambda i: s.n[i]['k'] in 'SRALTEYZU' and s.usable(i)
                       and all(t not in s.owned and s.usable(t) for t in s.ptrs(i)))
            if c is not None:
                j = s.copy(c)
                h = s.pick_subject('SRALTEYZU', avoid=(j,))
                if h is not None and rng.random() < .6: s.link(h, j)
                if rng.random() < .6: s.drop(j)
        elif r < .87:
            c = [i for i in sorted(s.stack) if s.isreg(i) and i not in s.owned and s.n[i]['k'] != 'B']
            if c:
                i = rng.choice(c)
                if s.indegree(i) == 0: s.delete(i)
        elif r < .87 + pc:
            s.collect(narrow=rng.random() < .5)
        elif r < .87 + pc + pb:
            s.burst(rng.choice([1, 3, 10, 40, 150]))
        else:
            h = s.pick_subject(HOLD)
            if h is not None:
                t = s.pick_target(h)
                if t is not None: s.link(h, t)
    s.collect(); s.collect(narrow=True)
    return s.script()


def ok_edge(s, h, t):
    """edge h -> t allowed?  raw tuples point to raw objects with smaller id only (raw_wf);
    owned targets take no further references"""
    if t in s.owned or h in s.dead or t in s.dead: return False
    if s.n[h]['k'] == 'u':
        return (not s.isreg(t)) and t < h
    if s.n[h]['k'] == 'B': return False
    return True


def gen_chain(rng, length, kinds=None):
    """a chain of `length` links, rooted at its head by one of the three root kinds; collect with the
    root (everything must survive), then without"""
    s = Sim(rng)
    kinds = kinds or rng.choice(['R', 'S', 'RS', 'RSALTEUYZ', 'U', 'AL', 'TE', 'YZ', 'B'])
    prev = s.new(rng.choice('SR'))
    for _ in range(length):
        k = rng.choice(kinds)
        h = s.new(k)
        if k == 'B':
            s.store(h, 0, prev); s.owned.add(prev)
        else:
            s.link(h, prev)
        s.drop(prev)
        prev = h
    r = root_somehow(s, prev, rng)
    s.collect(); s.burst(rng.choice([5, 50])); s.collect(narrow=True)
    unroot(s, r)
    s.collect(); s.collect(narrow=True)
    return s.script()


def gen_tuple_dag(rng, depth, width=2):
    """layers of registered heap tuples; every tuple of layer i holds all tuples of layer i+1:
    number of paths = width^depth, number of nodes = width*depth"""
    s = Sim(rng)
    layer = [s.new('S') for _ in range(1)]
    for _ in range(depth):
        nl = [s.new('U') for _ in range(width)]
        for t in nl:
            for x in layer: s.insert(t, x)
            if rng.random() < .2: s.insert(t, t)           # self reference
        for x in layer: s.drop(x)
        layer = nl
    top = s.new('U')
    for x in layer: s.insert(top, x); s.drop(x)
    r = root_somehow(s, top, rng)
    s.collect(); s.collect(narrow=True)
    unroot(s, r)
    s.collect(narrow=True)
    return s.script()


def gen_cycle(rng, n):
    """a cycle through nodes of arbitrary kinds (length n >= 1: self reference), hanging off a root"""
    s = Sim(rng)
    ids = [s.new(rng.choice('SRALTEYZU')) for _ in range(n)]
    for a, b in zip(ids, ids[1:] + ids[:1]): s.link(a, b)
    extra = s.new(rng.choice('SR'))
    s.link(ids[rng.randrange(n)], extra); s.drop(extra)
    entry = ids[rng.randrange(n)]
    for i in ids:
        if i != entry: s.drop(i)
    r = root_somehow(s, entry, rng)
    s.collect(); s.burst(20); s.collect(narrow=True)
    unroot(s, r)
    s.collect(narrow=True); s.collect()
    return s.script()


def gen_churn(rng, nkeep, nchurn):
    """containers grow (rehash / reallocation), shrink, while collections and bursts happen"""
    s = Sim(rng)
    c = s.new(rng.choice('ALTEYZU'))
    r = root_somehow(s, c, rng)
    members = []
    for step in range(nchurn):
        if rng.random() < .65 or len(members) < nkeep:
            x = s.new(rng.choice('SR'))
            key = len(members) + step * 7 if s.n[c]['k'] in 'TE' else None
            s.insert(c, x, key=key); s.drop(x); members.append(x)
        else:
            s.remove(c)
        if rng.random() < .08: s.collect(narrow=rng.random() < .5)
        if rng.random() < .05: s.burst(rng.choice([5, 30, 100]))
    s.collect(); s.collect(narrow=True)
    while s.remove(c): pass
    s.collect(narrow=True)
    unroot(s, r)
    s.collect()
    return s.script()


def gen_raw(rng, n):
    """heap tuples whose items lead through RAW objects (raw tuples, raw structs, raw Refs) to
    registered objects"""
    s = Sim(rng)
    top = s.new('U')
    raws = []
    for _ in range(n):
        k = rng.choice('sru')
        x = s.new(k)
        t = None
        if k == 'u':
            ok = [y for y in raws if s.clean(y)]
            for y in rng.sample(ok, min(len(ok), rng.randrange(0, 3))): s.insert(x, y)
        else:
            t = s.new(rng.choice('SRAU'))
            s.link(x, t)
        raws.append(x)
        if rng.random() < .6 and s.clean(x): s.insert(top, x)
        if t: s.drop(t)
    for x in raws: s.drop(x)
    r = root_somehow(s, top, rng)
    s.collect(); s.collect(narrow=True); s.burst(10)
    unroot(s, r)
    s.collect(narrow=True)
    return s.script()


def gen_exhaustive2():
    """small scope, exhaustive: every two-node graph over nine kinds, every choice of the (single) pointer of each
    node (NULL, itself, the other), every root kind of node 1 (stack slot, TLS entry, root flag, none) and of node 2
    (stack slot, TLS entry, none): 9*9*3*3*4*3 = 8748 scripts; exact collection, full collection, then all roots
    dropped and an exact collection again"""
    out = []
    kinds = 'SRALTEYZU'
    for k1 in kinds:
        for k2 in kinds:
            for p1 in (0, 1, 2):
                for p2 in (0, 1, 2):
                    for r1 in ('stack', 'tls', 'flag', 'none'):
                        for r2 in ('stack', 'tls', 'none'):
                            s = Sim(None)
                            a = s.new(k1, root=(r1 == 'flag'))
                            b = s.new(k2)
                            if p1: s.link2(a, p1)
                            if p2: s.link2(b, p2)
                            if r1 == 'tls': s.tls_set(1, a)
                            if r2 == 'tls': s.tls_set(2, b)
                            if r1 != 'stack': s.drop(a)
                            if r2 != 'stack': s.drop(b)
                            s.emit('E'); s.emit('G')
                            s.drop(a); s.drop(b); s.tls_rem(1); s.tls_rem(2)
                            s.emit('E')
                            out.append(s.script())
    return out


def gen_case(rng, size):
    c = gen_case1(rng, size)
    # one case in five runs in a freshly started Cello Thread (its own collector, stack bottom and TLS table)
    return '@ ' + c if rng.random() < .2 else c


def gen_finaliser(rng):
    """garbage objects whose FINALISER allocates a managed object while the sweep is running and publishes it into a
    live place (stack slot, TLS entry, field of a live object, possibly root-flagged); the late object — small, or the
    padded probe W that malloc serves from a fresh mapping outside the address window of everything registered so far —
    must survive every later collection while the place holds it"""
    s = Sim(rng)
    live = []
    for _ in range(rng.randrange(1, 5)):
        h = s.new(rng.choice('SSRW'), root=rng.random() < .25)
        if live and rng.random() < .5: s.link(h, rng.choice(live))
        live.append(h)
    if rng.random() < .4: s.burst(rng.choice([5, 40]))
    used, fs = set(), []
    for _ in range(rng.randrange(1, 4)):
        f = s.new('F')
        pk = rng.choice('KKTP')
        if pk == 'K': place = ('K',)
        elif pk == 'T':
            slot = tls_slot(rng, avoid=[u[1] for u in used if u[0] == 'T']); place = ('T', slot)
        else:
            h = rng.choice(live); i = rng.randrange(len(s.n[h]['f']))
            if ('P', h, i) in used: place = ('K',)
            else: place = ('P', h, i)
        used.add(place)
        lid = s.finconfig(f, rng.choice('SWW'), place)
        via = None
        if rng.random() < .5:                      # the F node hangs off another object instead of a stack slot
            via = s.new(rng.choice('RSALU')); s.link(via, f); s.drop(f)
        fs.append((f, via, lid, place))
    s.collect()
    for f, via, lid, place in fs:
        # the F node becomes garbage immediately before an exact collection: its finaliser runs inside that sweep
        if via is None: s.drop(f)
        else: s.drop(via)
        s.exact()
        if rng.random() < .5: s.collect(narrow=rng.random() < .5)
    s.burst(rng.choice([3, 30, 100])); s.collect(); s.exact(); s.collect(narrow=True)
    # some of the late objects get out-pointers and company
    for f, via, lid, place in fs:
        if rng.random() < .5 and s.usable(lid):
            x = s.new(rng.choice('SR')); s.store(lid, rng.randrange(2), x); s.drop(x)
    s.collect(); s.exact()
    # unpublish: the late objects become garbage
    for f, via, lid, place in fs:
        if place[0] == 'K': s.drop(lid)
        elif place[0] == 'T': s.tls_rem(place[1])
        else: s.store(place[1], place[2], 0)
    s.exact(); s.collect()
    return s.script()


def gen_views(rng):
    """heap view objects (Zip, Slice, Map, Filter, Range allocated with new) holding the ONLY reference to managed
    containers: the inputs are built and filled, handed to the view, all their other roots are dropped, collections run,
    the view is used (iterated), then dropped"""
    s = Sim(rng)
    views = []
    for _ in range(rng.randrange(1, 4)):
        k = rng.choice('zzlmfr')
        ins = []
        for _ in range({'z': 2, 'r': 0}.get(k, 1)):
            c = s.new(rng.choice(Sim.VIEW_INPUTS))
            for _ in range(rng.randrange(0, 5)):
                x = s.new(rng.choice('SR')); s.link(c, x); s.drop(x)
            ins.append(c)
        v = s.view(k, *ins)
        for c in ins: s.drop(c)
        if rng.random() < .5:
            r = root_somehow(s, v, rng)
        else:
            r = ('stack', v)
        views.append((v, r))
        if rng.random() < .4: s.collect(narrow=rng.random() < .5)
        if rng.random() < .3: s.burst(rng.choice([5, 40]))
    s.exact(); s.collect()
    for v, r in views: s.use(v)
    s.burst(30); s.exact()
    for v, r in views:
        s.use(v); unroot(s, r)
        s.exact()
    return s.script()


def gen_leaves(rng):
    """managed LEAF objects (new(Int), new(Float), new(String)) whose only reference is an item of a heap Tuple — Tuple_Mark hands
    the item POINTERS to the callback, so the leaf object itself must be looked up and marked — in stack-held, root-held,
    thread-local and cyclic (Tuple <-> Ref) configurations, cons cells (payload, next), the Tuples inside a heap Zip; for
    contrast the same leaves held by Ref / struct / containers of Ref"""
    s = Sim(rng)
    roots = []
    for _ in range(rng.randrange(1, 4)):
        shape = rng.choice(['tuple', 'tuple', 'cons', 'cycle', 'zip', 'other'])
        if shape == 'tuple':
            t = s.new('U', root=rng.random() < .3)
            for _ in range(rng.randrange(1, 5)):
                x = s.new(rng.choice(LEAFK)); s.insert(t, x); s.drop(x)
            hd = t
        elif shape == 'cons':
            hd = 0
            for _ in range(rng.randrange(1, 6)):
                c = s.new('U'); x = s.new(rng.choice(LEAFK)); s.insert(c, x); s.drop(x)
                if hd: s.insert(c, hd); s.drop(hd)
                hd = c
        elif shape == 'cycle':
            t = s.new('U'); r = s.new('R'); x = s.new(rng.choice(LEAFK))
            s.insert(t, x); s.insert(t, r); s.store(r, 0, t); s.drop(x); s.drop(r)
            hd = t
        elif shape == 'zip':
            a = s.new(rng.choice(LEAFK)); b = s.new(rng.choice('IDGAL'))
            hd = s.view('z', a, b); s.drop(a); s.drop(b)
        else:
            hd = s.new(rng.choice('RSALTE')); x = s.new(rng.choice(LEAFK)); s.link(hd, x); s.drop(x)
        roots.append(root_somehow(s, hd, rng))
        if rng.random() < .3: s.collect(narrow=rng.random() < .5)
    s.exact(); s.burst(rng.choice([5, 40])); s.collect(); s.exact()
    for r in roots:
        unroot(s, r)
        if rng.random() < .5: s.exact()
    s.exact()
    return s.script()


DEEP_KINDS = 'RBSUV'


def gen_deep(rng, length, kind=None, mix=None):
    """a deep singly linked structure: the mark phase has to nest `length` levels (the model has no depth bound; in the
    implementation the depth is limited by the C stack only: finding F1).  mix: None plain chain | 'elem' the chain hangs
    off a container element | 'cycle' the far end points back into the chain | 'shared' two chains share a tail.
    Every link must survive collections while the head is held, and be gone after the head is dropped."""
    s = Sim(rng)
    kind = kind or rng.choice(DEEP_KINDS)
    mix = mix if mix is not None else rng.choice([None, None, 'elem', 'cycle', 'shared'])
    if rng.random() < .3: s.burst(rng.choice([5, 50]))
    heads = []
    if mix == 'shared':
        t0, t1 = s.chain(max(1, length // 2), kind if kind != 'B' else 'R')
        a0, a1 = s.chain(length - length // 2, kind if kind != 'B' else 'R', t1)
        b0, b1 = s.chain(max(1, length // 3), rng.choice('RSUV'), t1)
        s.drop(t1)
        heads = [a1, b1]
    else:
        f0, f1 = s.chain(length, kind)
        if mix == 'cycle' and kind != 'B':
            back = rng.choice([f1, f0, f0 + length // 2])
            if kind == 'U': s.insert(f0, back)
            else: s.store(f0, 0 if kind in 'R' else 1 if kind in 'SV' else 0, back)
        heads = [f1]
    roots = []
    for hd in heads:
        if mix == 'elem':
            c = s.new(rng.choice('ALTEYZU'), root=rng.random() < .3)
            s.link(c, hd); s.drop(hd)
            roots.append(root_somehow(s, c, rng))
        else:
            roots.append(root_somehow(s, hd, rng))
    s.exact(); s.collect()
    if rng.random() < .5: s.burst(rng.choice([10, 100]))
    s.collect(narrow=True)
    for r in roots[:1]: unroot(s, r)
    s.exact()
    for r in roots[1:]: unroot(s, r)
    s.exact()
    return s.script()


def deep_cases(rng, lengths):
    """the deep-structure stream: every length once per representation group, the mixtures at moderate depth"""
    out = []
    for L in lengths:
        ks = rng.sample(DEEP_KINDS, 2)
        for k in ks: out.append(gen_deep(rng, L, k, None))
    for mix in ('elem', 'cycle', 'shared'):
        out.append(gen_deep(rng, rng.choice([4097, 5000]), rng.choice('RSUV'), mix))
    return out


def gen_bulk(rng):
    """collection points INSIDE a container operation: a container held by a root is built from fresh managed objects
    that are allocated while the operation consumes its argument (concat / assign of a lazily allocating iterable into
    Array, List, heap Tuple; allocate + set loops into Table / Tree with growth and rotations), sized so that the threshold
    is crossed several times in the middle; afterwards every element must be alive"""
    s = Sim(rng)
    for _ in range(rng.randrange(0, 4)):
        x = s.new(rng.choice('SR')); 
        if rng.random() < .5: s.drop(x)
    if rng.random() < .5: s.burst(rng.choice([3, 20, 60]))
    conts = []
    for _ in range(rng.randrange(1, 4)):
        k = rng.choice('AALLUTEYZ')
        c = s.new(k, root=rng.random() < .2)
        r = root_somehow(s, c, rng)
        conts.append((c, r))
        for _ in range(rng.randrange(1, 4)):
            if k in 'AL': mode = rng.choice('cca')
            elif k == 'U': mode = 'c'
            else: mode = 's'
            s.bulk(c, mode, rng.choice([1, 7, 30, 90, 250]))
            if rng.random() < .4: s.collect(narrow=rng.random() < .5)
            if rng.random() < .3 and k != 'U' or (k == 'U' and rng.random() < .3 and s.n[c]['items']): s.remove(c)
    s.collect(); s.exact()
    for c, r in conts:
        if rng.random() < .5: unroot(s, r)
    s.exact(); s.collect(narrow=True)
    return s.script()


def gen_case1(rng, size):
    r = rng.random()
    if r < .08: return gen_finaliser(rng)
    if r < .16: return gen_bulk(rng)
    if r < .22: return gen_views(rng)
    if r < .28: return gen_leaves(rng)
    if r < .50: return gen_random(rng, size, max(12, size * 3))
    if r < .62: return gen_chain(rng, rng.choice([1, 2, 5, 20, 100, min(size * 2, 400)]))
    if r < .72: return gen_tuple_dag(rng, rng.randrange(2, 14), rng.choice([1, 2, 2, 3]))
    if r < .82: return gen_cycle(rng, rng.choice([1, 1, 2, 3, 5, 12]))
    if r < .93: return gen_churn(rng, rng.choice([0, 3, 10]), rng.choice([20, 60, min(size * 2, 300)]))
    return gen_raw(rng, rng.randrange(1, 12))


def valid_script(case):
    """replays a script on the abstract heap and checks that it is a valid program (used when a
    failing case is shrunk: a candidate that is not a valid program does not count as failing)"""
    s = Sim(None)
    s.emit = lambda t: None
    box_of = {}

    def owned_ok():
        for t, b in box_of.items():
            if t in s.stack and t not in s.dead and s.n[b]['f'][0] == t and not s.usable(b): return False
        return True
    try:
        for tok in case.split(' '):
            if not tok: continue
            c, rest = tok[0], tok[1:]
            v = [int(x) for x in re.findall(r'\d+', rest)]
            if c == '@': continue
            if c in 'NCGHM' and s.pending_finalisers(): return False      # only an exact collection may finalise an F node
            if c == 'O':
                if v[0] not in s.n or s.n[v[0]]['k'] != 'P' or not s.usable(v[0]): return False
                vp = s.ptrs(v[0])
                if vp and s.n[vp[0]]['k'] == 'U' and any(s.n[t]['k'] in LEAFK for t in s.n[vp[0]]['items'] if t in s.n):
                    return False              # a Zip over leaf objects cannot be iterated
                continue
            if c == 'V':
                m = re.match(r'(\d+)([zlmfr])(?:=(\d+)(?:,(\d+))?)?$', rest)
                if not m or s.pending_finalisers() or not owned_ok(): return False
                i, k = int(m.group(1)), m.group(2)
                a, b = int(m.group(3) or 0), int(m.group(4) or 0)
                need = {'z': 2, 'r': 0}.get(k, 1)
                if [a, b][:need].count(0) or (need < 2 and b) or (need == 0 and a): return False
                for t in [a, b][:need]:
                    if t not in s.n or s.n[t]['k'] not in (Sim.ZIP_INPUTS if k == 'z' else Sim.VIEW_INPUTS) or not s.usable(t) or t in s.owned: return False
                if i <= s.nid or any(i <= q[0] <= i + 2 for q in s.qcfg.values()): return False
                s.nid = i - 1
                s.view(k, a, b)
                continue
            if c == 'L':
                m = re.match(r'(\d+),(\d+),([RBSUV]),(\d+)$', rest)
                if not m or s.pending_finalisers() or not owned_ok(): return False
                first, n, kind, tail = int(m.group(1)), int(m.group(2)), m.group(3), int(m.group(4))
                if first <= s.nid or n < 1 or any(first <= q[0] < first + n for q in s.qcfg.values()): return False
                if tail:
                    if not s.usable(tail) or tail in s.owned: return False
                    if kind == 'B' and (s.indegree(tail) or tail not in s.stack or s.n[tail]['root'] or not s.isreg(tail)): return False
                s.nid = first - 1
                s.chain(n, kind, tail)
                if kind == 'B' and tail: s.drop(tail)
                continue
            if c == 'B':
                m = re.match(r'(\d+),([cas]),(\d+),(\d+)$', rest)
                if not m or s.pending_finalisers() or not owned_ok(): return False
                cc, mode, n, first = int(m.group(1)), m.group(2), int(m.group(3)), int(m.group(4))
                if not s.usable(cc) or first <= s.nid or any(first <= q[0] < first + n for q in s.qcfg.values()): return False
                k = s.n[cc]['k']
                if not (mode == 'c' and k in 'ALU' or mode == 'a' and k in 'AL' or mode == 's' and k in 'TEYZ'): return False
                s.nid = first - 1
                s.bulk(cc, mode, n)
                continue
            if c == 'Q':
                m = re.match(r'(\d+)=(\d+)([SW]),(K|T\d+|P\d+\.\d+)$', rest)
                if not m: return False
                f, lid = int(m.group(1)), int(m.group(2))
                if f not in s.n or s.n[f]['k'] != 'F' or f in s.qcfg or not s.usable(f): return False
                if lid in s.n or any(lid == q[0] for q in s.qcfg.values()): return False
                pl = m.group(4)
                if pl == 'K': place = ('K',)
                elif pl[0] == 'T': place = ('T', int(pl[1:]))
                else:
                    h, i = [int(x) for x in pl[1:].split('.')]
                    if h not in s.n or s.n[h]['k'] not in 'SRW' or i >= len(s.n[h]['f']): return False
                    place = ('P', h, i)
                s.qcfg[f] = (lid, m.group(3), place)
                s.nid = max(s.nid, lid)
                continue
            if c == 'N':
                if not owned_ok() or v[0] in s.n or any(v[0] == q[0] for q in s.qcfg.values()): return False
                k = re.search(r'[A-Za-z]', rest).group(0)
                s.nid = v[0] - 1
                s.new(k, root=rest.endswith('!'))
            elif c == 'C':
                i, src = v
                if not owned_ok() or i in s.n or not s.usable(src) or s.n[src]['k'] not in 'SRALTEYZU': return False
                if any(i == q[0] for q in s.qcfg.values()): return False
                if any(t in s.owned or not s.usable(t) for t in s.ptrs(src)): return False
                s.nid = i - 1
                s.copy(src)
            elif c == 'P':
                i, slot, t = v
                if not s.usable(i) or s.n[i]['k'] not in 'SsRrBWV' or slot >= len(s.n[i]['f']): return False
                if t:
                    if not s.usable(t) or t in s.owned or not ok_edge(s, i, t) and s.n[i]['k'] != 'B': return False
                    if s.n[i]['k'] == 'B':
                        if s.indegree(t) or t not in s.stack or s.n[t]['root'] or not s.isreg(t): return False
                        s.owned.add(t); box_of[t] = i
                s.store(i, slot, t)
            elif c == 'I':
                i, key, t = v
                if not s.usable(i) or not s.usable(t) or not ok_edge(s, i, t) or s.n[i]['k'] not in 'ALTEYZUu': return False
                if s.n[i]['k'] in 'YZ' and key != t: return False
                s.insert(i, t, key=key)
            elif c == 'D':
                i, key = v
                nd = s.n[i]
                if not s.usable(i): return False
                if nd['k'] in 'TEYZ':
                    if key not in nd['kv']: return False
                    del nd['kv'][key]
                else:
                    if key >= len(nd['items']): return False
                    nd['items'].pop(key)
                s.dirty()
            elif c == 'K':
                if rest[0] == '+':
                    if not s.usable(v[0]): return False
                    s.keep(v[0])
                else: s.drop(v[0])
            elif c == 'T':
                if rest[0] == '+':
                    if not s.usable(v[1]) or v[1] in s.owned or not s.isreg(v[1]): return False
                    s.tls_set(v[0], v[1])
                else:
                    if v[0] not in s.tls: return False       # rem of an absent thread-local key raises KeyError
                    s.tls_rem(v[0])
            elif c == 'X':
                i = v[0]
                if i not in s.stack or not s.isreg(i) or i in s.owned or s.indegree(i) or s.n[i]['k'] == 'B': return False
                s.delete(i)
            elif c in 'GHEM':
                if not owned_ok(): return False
                if c == 'E' and not s.finalise(): return False
            else: return False
    except (KeyError, IndexError, ValueError, AttributeError):
        return False
    return True


# ----------------------------------------------------------------------------- transcripts
_PARSED = {}


def parse(line):
    """memoised parse1"""
    r = _PARSED.get(line)
    if r is None:
        if len(_PARSED) > 4000: _PARSED.clear()
        r = _PARSED[line] = parse1(line)
    return r


def parse1(line):
    """-> list of observations {'op','m','a','f','c','r','t','x'} (sets of ids) ; a trailing marker
    (CRASH / TIMEOUT / EXIT / OUTOFFUEL) becomes {'op': marker}"""
    out = []
    for part in line.split(' | '):
        part = part.strip()
        if not part: continue
        f = part.split(' ')
        if f[0] in ('G', 'H', 'E', 'M'):
            o = {'op': f[0]}
            for kv in f[1:]:
                if '=' not in kv: continue
                k, v = kv.split('=', 1)
                if k in ('t', 'x', 'h', 'hs', 'w') or (v and not v[0].isdigit()): o[k] = v
                else: o[k] = set(int(x) for x in v.split(',') if x)
            out.append(o)
        else:
            out.append({'op': part})
    return out


def longest_chain_hint(case):
    return case.count('N')


SPEC = {}      # case -> specification transcript of the current batch (model/spec cross-check in corr)
GENERATED = set()      # cases produced by the generators / the corpus: valid programs by construction


def is_valid(case):
    return case in GENERATED or valid_script(case)


def oracle(case, impl, spec):
    if spec == 'NOOBS' or spec.startswith('DRIVERERROR') or not is_valid(case):
        return None             # nothing observed / not a valid program (only arises while shrinking)
    pi, ps = parse(impl), parse(spec)
    for n, o in enumerate(pi):
        if o['op'] not in ('G', 'H', 'E', 'M'):
            return 'collection %d did not run to completion: %s' % (n, o['op'])
    if len(pi) != len(ps):
        return 'implementation transcript has %d observations, specification %d' % (len(pi), len(ps))
    for n, (a, b) in enumerate(zip(pi, ps)):
        if a.get('x'):
            return 'observation %d: %s' % (n, a['x'])
        lost = b['r'] - a['a']
        if lost:
            return 'observation %d (%s): reachable object(s) %s no longer alive' % (n, a['op'], sorted(lost)[:8])
        if isinstance(b.get('k'), set) and b.get('h') == '1111':
            lost = b['k'] - a['a']      # proved (mark_exact): k = registered and (root-flagged or reachable)
            if lost:
                return 'observation %d (%s): object(s) %s that must be kept (reachable or root-flagged) no longer alive' % (
                    n, a['op'], sorted(lost)[:8])
        fin = b['r'] & a['f']
        if fin:
            return 'observation %d (%s): reachable probe object(s) %s finalised' % (n, a['op'], sorted(fin)[:8])
        if a['c']:
            return 'observation %d (%s): canary of %s destroyed' % (n, a['op'], sorted(a['c'])[:8])
        if a.get('u'):
            return 'observation %d (%s): object(s) %s freed by the collector but not finalised exactly once' % (n, a['op'], sorted(a['u'])[:8])
    return None


def corr(case, impl, model):
    if model == 'NOOBS' or model.startswith('DRIVERERROR') or not is_valid(case):
        return None
    pi, pm = parse(impl), parse(model)
    for n, o in enumerate(pm):
        if o['op'] not in ('G', 'H', 'E', 'M'):
            return 'model: %s at observation %d' % (o['op'], n)
    if len(pi) != len(pm):
        return 'observations: implementation %d / model %d (%s)' % (len(pi), len(pm), pi[-1]['op'] if pi else '')
    for n, (a, b) in enumerate(zip(pi, pm)):
        if a['op'] not in ('G', 'H', 'E', 'M'):
            return 'implementation: %s at observation %d' % (a['op'], n)
        if a.get('w') == '0':
            return ('observation %d: implementation (white-box): an alive registered object lies outside [gc->minptr, gc->maxptr] — '
                    'the window invariant range_ok of the theorems does not hold after this sweep' % n)
        if b.get('hs') and b['hs'] != '1111':
            return ('observation %d: model: hypotheses (wf, raw_wf, range_ok, order_ok) evaluate to %s after the sweep and the '
                    'allocations issued by finalisers' % (n, b['hs']))
        if a['op'] in 'GHE':
            hy = b.get('h')
            if hy and hy != '1111':
                return ('observation %d: hypotheses of the theorems (wf, raw_wf, range_ok, order_ok) evaluate to %s on the '
                        'state of the model at this collection point' % (n, hy))
            sp = SPEC.get(case)
            if sp:
                so = parse(sp)[n]
                r = so['r']
                if so.get('h') != '1111' or not isinstance(so.get('k'), set):
                    return ('observation %d: specification side: hypotheses %s, must-keep set %s' % (n, so.get('h'), str(so.get('k'))[:40]))
                if not (r <= so['k'] and so['k'] <= r | set(int(x) for x in re.findall(r'N(\d+)[A-Z]!', case))):
                    return ('observation %d: proved must-keep set %s differs from the executable reachability %s (+ root-flagged)'
                            % (n, sorted(so['k'])[:10], sorted(r)[:10]))
                rootf = set(int(x) for x in re.findall(r'N(\d+)[A-Z]!', case))
                if not (r <= b['m'] and b['m'] <= r | rootf):
                    return ('observation %d: marks of the extracted model %s differ from the extracted reachability %s (+ root-flagged)'
                            % (n, sorted(b['m'])[:10], sorted(r)[:10]))
            d = b['m'] - a['m']
            if d: return 'observation %d: marked in the model, not in the implementation: %s' % (n, sorted(d)[:8])
            if a['op'] == 'E':
                # exact stack pass: nothing but the scripted words is scanned, so equality is demanded
                d = a['m'] - b['m']
                if d: return 'observation %d (exact stack pass): marked in the implementation, not in the model: %s' % (n, sorted(d)[:8])
                d = a['a'] - b['a']
                if d: return 'observation %d (exact stack pass): survives in the implementation, not in the model: %s' % (n, sorted(d)[:8])
            d = b['a'] - a['a']
            if d: return 'observation %d: survives in the model, not in the implementation: %s' % (n, sorted(d)[:8])
    return None


def nontrivial(case, impl):
    """some collection kept at least two nodes while at least one node had been reclaimed"""
    created = set(int(x) for x in re.findall(r'[NC](\d+)[A-Z=]', case))
    for m in re.finditer(r'V(\d+)([zlmfr])', case):
        created |= set(range(int(m.group(1)), int(m.group(1)) + {'z': 3, 'l': 3, 'r': 2}.get(m.group(2), 1)))
    for m in re.finditer(r'L(\d+),(\d+),[RBSUV]', case):
        created |= set(range(int(m.group(1)), int(m.group(1)) + int(m.group(2))))
    for m in re.finditer(r'B\d+,[cas],(\d+),(\d+)', case):
        created |= set(range(int(m.group(2)), int(m.group(2)) + int(m.group(1))))
    for o in parse(impl):
        if o['op'] in 'GHEM' and len(o.get('a', ())) >= 2 and len(created - o['a']) >= 1:
            return True
    return False


def split(case):
    pre = ''
    if case.startswith('@ '): pre, case = '@ ', case[2:]
    toks = case.split(' ')
    return (pre, toks) if len(toks) <= 4000 else (pre, [case])       # huge cases are not shrunk


def join(pre, toks): return pre + ' '.join(toks)


def classify(case, impl, why):
    # signature of the open finding F1 is a predicate on the INPUT: at least 25000 objects in one script (only the
    # dedicated probe builds that many; the regular generators stay at or below 20001) and the run crashed
    if longest_chain_hint(case) >= 25000 and 'CRASH' in (impl or ''):
        return F1_SIG
    return None


CORPUS = [
    # seed C01-r7-2: managed leaf objects referenced only from a heap Tuple (stack-held, cyclic with a Ref, inside a heap Zip)
    'N1U N2I I1,0=2 K-2 N3G I1,0=3 K-3 N4D I1,0=4 K-4 E G M30 E K-1 E',
    'N1U N2R N3G I1,0=3 I1,0=2 P2.0=1 K-3 K-2 T+24=1 K-1 E G T-24 E', 'N1I N2G V3z=1,2 K-1 K-2 E G K-3 E',
    # seed C18-r6-1: containers reachable only through a heap Zip / Slice / Map / Filter
    'N1A N2S I1,0=2 K-2 N3L N4S I3,0=4 K-4 V10z=1,3 K-1 K-3 E O10 G M30 E O10 K-10 E',
    'N1L N2S I1,0=2 K-2 V10m=1 V20f=1 V30r V40l=1 K-1 E O10 O20 O30 O40 K-10 K-40 E K-20 K-30 E',
    # seed C01-r6-2: thread-local roots under keys of every legal shape, main thread and worker thread
    'N1S T+24=1 K-1 N2R T+20=2 K-2 N3S T+21=3 K-3 N4S T+22=4 K-4 N5S T+23=5 K-5 E G T-24 E',
    '@ N1S T+25=1 K-1 N2R T+26=2 K-2 N3S T+27=3 K-3 N4S T+28=4 K-4 N5S T+29=5 K-5 E G M40 E T-25 T-26 E',
    'L1,4100,R,0 E K-4100 E', 'L1,4200,U,0 T+1=4200 K-4200 G E T-1 E',       # seed C01-r5-2: marking must nest deeper than 4096
    'N1A B1,c,300,10 E G',                                 # seed C01-r3-1: threshold collections in the middle of concat
    'N1A B1,a,300,10 E', 'N1U B1,c,200,10 E',              # ... of assign into an Array, of concat into a heap Tuple
    'N1L T+1=1 K-1 B1,c,120,10 B1,a,90,200 E N2E! K-2 B2,s,150,400 G E',
    'N1S N2F Q2=3W,K K-2 E E G H M30 K-3 E',             # seed C01-r2-2: object allocated by a finaliser, outside the window
    'N1S N2F Q2=3S,P1.1 K-2 E E G',
    '@ N1R! N2F Q2=3W,T4 K-2 E K-1 E G T-4 E',
    'N1S T+1=1 K-1 G G',                                   # D16: reachable from TLS only
    '@ N1S T+1=1 K-1 G G N2U I2,0=2 H M30 G',              # the same in a second thread (+ D17 witness)
    'N1R N2S P1.0=2 K-2 T+3=1 K-1 M40 G H',                # D16 through a Ref, threshold collections
    'N1U I1,0=1 G H',                                      # D17: self-referential heap Tuple
    'N1U N2U I1,0=2 I2,0=1 K-2 G K-1 G',                   # D17: cycle of two heap Tuples
    'N1A N2R I1,0=2 P2.0=1 K-2 N3B N4S P3.0=4 K-4 I1,0=3 N5R P5.0=3 I1,0=5 K-5 K-3 N6S P6.0=1 T+1=6 K-6 K-1 G H M30 G T-1 G H',
    'N1T N2S I1,5=2 K-2 N3E N4S I3,7=4 K-4 G H D1,5 D3,7 G H',
    'N1Y N2S I1,2=2 K-2 N3Z N4R I3,4=4 K-4 N5S I3,5=5 K-5 G H D1,2 D3,4 G H',      # pointers held by Table / Tree KEYS
    'N1R! N2S P1.0=2 K-1 K-2 G H M100 G P1.0=0 G H',
    'N1U N2u I1,0=2 K-2 N3S I1,0=3 K-3 E X1 E N4S E',       # explicit del of a Tuple that holds a raw Tuple
    'N1U N2s N3S P2.0=3 I1,0=2 K-3 K-2 N4r N5R P4.0=5 N6u I6,0=4 I1,0=6 K-6 K-5 K-4 G H K-1 G',
]


def corpus_dag(depth):
    import random
    return gen_tuple_dag(random.Random(depth), depth, 2)


def f1_probe(ctx, h, n=200000):
    """open finding F1: recursion depth of the mark phase is linear in the chain length"""
    toks = ['N1R']
    for i in range(2, n + 1):
        toks.append('N%dR' % i); toks.append('P%d.0=%d' % (i, i - 1)); toks.append('K-%d' % (i - 1))
    toks.append('G')
    rc, lines, err = ctx.run_lines(h, [' '.join(toks)], timeout=300, env=dict(os.environ, H_TIMEOUT='120'))
    line = lines[0] if lines else ''
    crashed = 'CRASH' in line
    ctx.cov['f1_probe'] = {'links': n, 'outcome': line[-60:] if crashed else ('completed: ' + line[:40] + '...')}
    return crashed


def run(ctx):
    quick = ctx.tier == 'quick'
    ctx.cov['rule'] = (
        'a case is a script building a graph of real Cello objects (probe struct with two pointer fields, Ref, Box, '
        'Array/List of Ref, Table/Tree Int->Ref, heap Tuple; raw struct/Ref/Tuple reached through Tuple items), with roots of '
        'the three kinds (stack slot, root-flagged holder, thread-local entry), pointer stores, container inserts/removes, '
        'root drops, explicit del, forced collections (G: full stack scan, H: scan narrowed to the collecting frames) and '
        'allocation bursts that trigger threshold collections; generators: random growth/mutation, chains (1..400 quick, up to '
        '20000 thorough), layered heap-Tuple DAGs (paths = width^depth), cycles and self references through every kind, container '
        'churn (growth, rehash, shrink), raw objects behind Tuple items; every script is a valid program (generator keeps an '
        'abstract heap: only reachable pointers are used, Box targets are exclusively owned, raw tuples acyclic).  '
        'non-trivial = some collection kept at least two nodes while at least one created node had been reclaimed; '
        'distinct = distinct implementation transcripts among the non-trivial cases')
    ctx.assumptions += [
        'C text tied by correspondence only: extracted Gallina model vs library built from the working tree '
        '(white-box mark bits after GC_Mark; every dealloc of the collector observed through a macro hook in the harness)',
        'registry lookup = exact membership (owned by C17); range_ok (registered addresses are word aligned and within '
        '[minptr,maxptr]) owned by C17',
        'conservative stack scanning: the implementation may retain more than the model, never less; equality is not demanded',
        'C stack depth is a runtime resource outside the model (finding F1)']
    ctx.coq()
    drv = ctx.build_driver('Mark')
    h = ctx.build_harness('gc_graph.c', whitebox='GC')
    env = dict(os.environ, H_TIMEOUT='10' if quick else '30')
    tm = ctx.cov.setdefault('wall_split_s', {'generate': 0.0, 'implementation': 0.0, 'model': 0.0, 'specification': 0.0})

    def run_impl(cs):
        t0 = time.time()
        out = ctx.run_lines(h, cs, env=env, timeout=3600)[1]
        tm['implementation'] += time.time() - t0
        for i, l in enumerate(out):
            if 'TIMEOUT' in l and len(cs) > 1:
                # a loaded machine must not look like a hanging collector: once more, alone, with a long limit
                out[i] = ctx.run_lines(h, [cs[i]], env=dict(os.environ, H_TIMEOUT='120'), timeout=3600)[1][0]
                ctx.cov['timeouts_rerun'] = ctx.cov.get('timeouts_rerun', 0) + 1
        return out
    def run_model(cs):
        t0 = time.time()
        out = ctx.run_lines(drv, cs, args=['model'], timeout=3600)[1]
        tm['model'] += time.time() - t0
        return out
    def run_spec(cs):
        t0 = time.time()
        out = ctx.run_lines(drv, cs, args=['spec'], timeout=3600)[1]
        tm['specification'] += time.time() - t0
        if len(cs) > 1: SPEC.clear()
        SPEC.update(zip(cs, out))
        return out
    d = vlib.Differential(ctx, 'gc_graph', run_impl, run_model, run_spec, oracle, corr, nontrivial, split, join, classify)
    rp = os.environ.get('VERIF_REPLAY')
    if rp:
        r = json.load(open(rp))
        d.feed([r['case']] if 'case' in r else CORPUS)
        for x in d.oracle_fail + d.corr_fail:
            print('REPLAY: %s\n  impl  %s\n  model %s\n  spec  %s' % (x[4], x[1][:400], (x[2] or '')[:400], (x[3] or '')[:400]))
        d.report()
        return
    def feed(dd, cs, label=''):
        GENERATED.update(cs)
        dd.feed(cs, label)
    corpus = CORPUS + [corpus_dag(30), corpus_dag(36)]
    bad = [c for c in corpus if not valid_script(c)]
    if bad: raise RuntimeError('corpus case is not a valid program: ' + bad[0][:200])
    feed(d, corpus, 'corpus')
    n = 1300 if quick else 10000
    size = 200 if quick else 5000
    t0 = time.time()
    # deep structures first: chain lengths around a plausible "depth cap" and far beyond what the repository's own tests build
    DEEP = [1000, 4095, 4096, 4097, 5000, 10000] + ([] if quick else [MAX_CHAIN_REGULAR])
    deep = deep_cases(ctx.rng, DEEP)
    cases = []
    ctx.cov['deep_structures'] = ('%d scripts: singly linked chains of %s links through Ref / Box / struct / heap-Tuple cons cell / user type '
                                  'with a Mark method (2 representations per length), plus chain hanging off a container element, chain '
                                  'ending in a cycle, two chains sharing a tail' % (len(deep), ', '.join(map(str, DEEP))))
    for i in range(n):
        if quick: sz = ctx.rng.choice([6, 12, 25, 60, size])
        else: sz = size if i % 800 == 0 else ctx.rng.choice([6, 12, 25, 60, 200, 200, 600])     # 13 graphs of up to 5000 nodes
        cases.append(gen_case(ctx.rng, sz))
    # the deep scripts are spread over the stream so that the parallel shards of run_lines share them
    step = max(1, len(cases) // len(deep))
    for j, c in enumerate(deep): cases.insert(j * step, c)
    if not quick:
        for L in (1000, 5000, MAX_CHAIN_REGULAR):
            for kinds in ('R', 'RS', 'RSALTEU'):
                # a link through a container costs several C frames: keep those chains well below the stack limit (F1)
                cases.append(gen_chain(ctx.rng, min(L, 5000) if len(kinds) > 2 else L, kinds))
    if not quick:
        ex = gen_exhaustive2()
        bad = [c for c in ex[::97] if not valid_script(c)]
        if bad: raise RuntimeError('exhaustive generator produced an invalid program: ' + bad[0])
        cases += ex
        ctx.cov['exhaustive'] = ('all %d two-node graphs over 9 kinds x pointer of each node in {NULL, self, other} x root kind of '
                                 'node 1 in {stack, TLS, root flag, none} x root kind of node 2 in {stack, TLS, none}' % len(ex))
    tm['generate'] = round(time.time() - t0, 1)
    # self-test of the generators: a sample of the generated scripts is replayed by the independent validity checker
    small = [c for c in cases if c.count(' ') < 500][:300]
    bad = [c for c in small if not valid_script(c)]
    if bad: raise RuntimeError('generator produced an invalid program: ' + bad[0][:300])
    ctx.cov['generator_selfcheck'] = '%d generated scripts replayed by valid_script: all valid programs' % len(small)
    for i in range(0, len(cases), 500):
        feed(d, cases[i:i + 500])
    hist, kinds, sizes = {}, {}, {}
    for c in cases:
        nn = 0
        for t in c.split(' '):
            hist[t[0]] = hist.get(t[0], 0) + 1
            if t[0] == 'N':
                nn += 1
                k = re.search(r'[A-Za-z]!?$', t).group(0)
                kinds[k] = kinds.get(k, 0) + 1
        b = 1
        while b < nn: b *= 4
        sizes['<=%d' % b] = sizes.get('<=%d' % b, 0) + 1
    ctx.cov['operation_histogram'] = dict(sorted(hist.items()))
    ctx.cov['node_kind_histogram'] = dict(sorted(kinds.items()))
    ctx.cov['nodes_per_case'] = dict(sorted(sizes.items(), key=lambda kv: int(kv[0][2:])))
    # over-retention of the conservative scan (evidence, not a verdict)
    stats(ctx, d, cases)

    def extra(dd):
        # directed search after a broken obligation / correspondence: deep structures first, then the random stream
        feed(dd, [gen_deep(ctx.rng, L, k, None) for L in (4095, 4096, 4097, 10000) for k in DEEP_KINDS])
        # thread-local roots under every key shape (main and worker thread), heap views holding the only reference
        tl = []
        for slot in list(range(1, 4)) + TLS_SPECIAL:
            for pre in ('', '@ '):
                for k in 'SRA':
                    tl.append('%sN1%s T+%d=1 K-1 E G M20 E T-%d E' % (pre, k, slot, slot))
        feed(dd, tl)
        feed(dd, [gen_views(ctx.rng) for _ in range(200)])
        feed(dd, [gen_case(ctx.rng, 60) for _ in range(10 * min(n, 300))])
    d.report(extra)
    # open finding F1: dedicated probe
    f1 = [f for f in ctx.open_findings() if f.get('signature') == F1_SIG]
    if not f1:      # known_findings.json not assembled yet: read this property's own fragment
        fp = os.path.join(vlib.VERIF, 'findings.d', 'C01.json')
        f1 = [f for f in json.load(open(fp)) if f.get('status') == 'open' and f.get('signature') == F1_SIG] if os.path.exists(fp) else []
    crashed = f1_probe(ctx, h)
    if crashed:
        if f1: ctx.known(f1[0])
        else:
            ctx.violation('f1_chain', {'kind': 'mark phase crashes on a long chain (stack exhaustion) and no open finding lists it',
                                       'case': 'chain of 200000 Ref links, forced collection', 'signature': F1_SIG})
    else:
        ctx.notes.append('F1 probe: 200000-link chain collected without a crash (finding not reproduced)')


def stats(ctx, d, cases):
    """re-run a sample to measure how much the conservative scan retains beyond the reachable set"""
    sample = cases[:200]
    if not sample: return
    il, sl = d.run_impl(sample), d.run_spec(sample)
    tot = {'G': [0, 0, 0, 0], 'H': [0, 0, 0, 0], 'E': [0, 0, 0, 0]}       # observations, exact, reachable nodes, retained-unreachable nodes
    for c, i, s in zip(sample, il, sl):
        roots = set(int(x) for x in re.findall(r'N(\d+)[A-Z]!', c))
        for a, b in zip(parse(i), parse(s)):
            if a['op'] in tot and 'a' in a and 'r' in b:
                t = tot[a['op']]
                extra = a['a'] - b['r'] - roots
                t[0] += 1; t[1] += (not extra); t[2] += len(b['r']); t[3] += len(extra)
    ctx.cov['over_retention'] = {k: {'collections': v[0], 'exactly_reachable_kept': v[1], 'reachable_nodes': v[2],
                                     'unreachable_nodes_retained': v[3]} for k, v in tot.items()}
