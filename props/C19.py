"""C19 — every object carries its true type and allocation class; stack, static and
container-embedded objects are never freed or reallocated (attempts raise and change nothing);
heap objects deleted once are released exactly once.

Finite matrix  (type) x (way of obtaining an object) x (operation)  x (collector compiled in / out),
run exhaustively on the real library (harness/header_matrix.c, free/realloc interposed at link time)
next to the extracted model (coq/Header.v) and the property's own table (spec mode of the driver)."""
import os, json, re
import vlib

# S1, S4, S12, S20: user types of 1, 4, 12, 20 bytes (not a multiple of sizeof(var)): rounding of element sizes,
# unaligned headers behind a key
ELEM_TYPES = ['Int', 'Float', 'String', 'Ref', 'Tuple', 'Array', 'List', 'Table', 'Tree', 'Function', 'U0', 'U1',
              'S1', 'S4', 'S12', 'S20']
STACK_TYPES = ['Int', 'Float', 'String', 'Ref', 'Tuple', 'Function', 'U0', 'U1']     # struct Array/List/Table/Tree are private
KEY_TYPES = ['Int', 'Float', 'String', 'Ref', 'Tuple', 'U0', 'S1', 'S4', 'S12', 'S20']
GROW_KEY_TYPES = ['Int', 'Float', 'String', 'S4', 'S12']      # the harness can make 24 distinct keys of these
EXTRA_TYPES = ['Box', 'Range', 'File', 'Mutex']   # only constructed / put on the stack, never stored in containers
EXTRA_STACK = ['Box', 'Range', 'File']            # struct Mutex is private
CONTS_GET = ['Array', 'List', 'TableV', 'TreeV']
CONTS_ITER = ['Array', 'List', 'TableK', 'TreeK']
DELETING = ['del', 'del_raw', 'del_root', 'dealloc', 'dealloc_raw', 'dealloc_root']
S_OPS = ['assign', 'resize', 'concat', 'append', 'print_to']
T_OPS = ['assign', 'assign_iter', 'resize', 'concat', 'append', 'push', 'pop', 'push_at', 'pop_at', 'rem']
HEAP_PRODUCERS = ['new', 'new_raw', 'new_root', 'alloc', 'alloc_raw', 'alloc_root', 'copy']


def ops_for(tname, ngc, constructed=True):
    ops = list(DELETING)
    if constructed:
        ops.append('destruct')
        if tname == 'String':
            ops += S_OPS
        elif tname == 'Tuple':
            ops += T_OPS
    if not ngc:
        ops.append('sweep')
    return ops


# size classes of the argument of the size-dependent operations, relative to the current value:
# e(mpty) s(horter) q (equal) l(onger); for push_at / pop_at / rem: l = at the last position instead of the first.
# The unsuffixed operation keeps the fixed argument of the basic matrix.
SIZED = {'String': {'assign': 'esql', 'concat': 'esql', 'append': 'esql', 'resize': 'esql', 'print_to': 'sql'},
         'Tuple': {'assign': 'esql', 'concat': 'esql', 'resize': 'es', 'push_at': 'l', 'pop_at': 'l', 'rem': 'l'}}


def stack_buffer(p):
    """the object's buffer is not heap memory: every reallocating member must refuse whatever the sizes"""
    return p.split(':')[0] in ('stack', 'static_obj', 'zip_stack') or p in ('tget:stack', 'titer:stack')


def sized_ops(ot, p):
    out = []
    for op, classes in SIZED.get(ot, {}).items():
        if ot == 'Tuple' and op == 'resize' and stack_buffer(p):
            classes = 'esql'      # (on a heap Tuple resize to >= len raises FormatError before anything: not a size class of interest)
        out += ['%s@%s' % (op, c) for c in classes]
    return out


def producers():
    """-> list of (T, K, V, producer, type of the produced object, constructed?)"""
    out = []
    for T in ELEM_TYPES:
        for p in HEAP_PRODUCERS:
            out.append((T, 'Int', 'Int', p, T, not p.startswith('alloc')))
        for c in CONTS_GET:
            if c in ('Array', 'List'):
                out.append((T, 'Int', 'Int', 'get:' + c, T, True))
            else:
                for K in ('Int', 'String', 'S4', 'S12'):
                    out.append(('Int', K, T, 'get:' + c, T, True))
        for c in CONTS_ITER:
            for how in ('iter', 'last', 'next', 'prev', 'slice', 'filter', 'map'):
                if c in ('Array', 'List'):
                    out.append((T, 'Int', 'Int', '%s:%s' % (how, c), T, True))
                elif T in KEY_TYPES:
                    out.append(('Int', T, 'Int', '%s:%s' % (how, c), T, True))
        for inner in ('raw', 'elem'):
            out.append((T, 'Int', 'Int', 'tget:' + inner, T, True))
            out.append((T, 'Int', 'Int', 'titer:' + inner, T, True))
    for T in ELEM_TYPES:
        # elements obtained after the container was grown (realloc / rehash moved them) and shrunk
        for c in ('Array', 'List'):
            out.append((T, 'Int', 'Int', 'get:%s+g' % c, T, True))
            out.append((T, 'Int', 'Int', 'iter:%s+g' % c, T, True))
            out.append((T, 'Int', 'Int', 'last:%s+g' % c, T, True))
        for c in ('Table', 'Tree'):
            for K in GROW_KEY_TYPES:
                out.append(('Int', K, T, 'get:%sV+g' % c, T, True))
            if T in GROW_KEY_TYPES:
                out.append(('Int', T, 'Int', 'iter:%sK+g' % c, T, True))
                out.append(('Int', T, 'Int', 'last:%sK+g' % c, T, True))
    for T in ELEM_TYPES:
        # elements of a container obtained by copy(c) ("+c") or by assign(fresh, c) ("+a"): Array_Assign,
        # List_Assign, Table_Assign, Tree_Assign recompute element types and sizes themselves.  Key and value
        # types of different sizes, both ways (Int 8, U0 16, U1 32, Array 40 bytes ...)
        for how in ('+c', '+a', '+g+a'):
            for c in ('Array', 'List'):
                out.append((T, 'Int', 'Int', 'get:%s%s' % (c, how), T, True))
                out.append((T, 'Int', 'Int', 'last:%s%s' % (c, how), T, True))
            for c in ('Table', 'Tree'):
                for K in (('Int', 'U0') if how != '+g+a' else ('Int',)):
                    out.append(('Int', K, T, 'get:%sV%s' % (c, how), T, True))
                if T in KEY_TYPES and how != '+g+a' or T in GROW_KEY_TYPES:
                    for V in ('Int', 'U1'):
                        out.append(('Int', T, V, 'iter:%sK%s' % (c, how), T, True))
    for T in EXTRA_TYPES:
        for p in HEAP_PRODUCERS:
            if p != 'copy':
                out.append((T, 'Int', 'Int', p, T, not p.startswith('alloc')))
    for T in EXTRA_STACK:
        out.append((T, 'Int', 'Int', 'stack', T, True))
    for T in STACK_TYPES:
        out.append((T, 'Int', 'Int', 'static_obj', T, True))      # class AllocStatic, set up with header_init
        out.append((T, 'Int', 'Int', 'stack', T, True))
        out.append((T, 'Int', 'Int', 'tget:stack', T, True))
        out.append((T, 'Int', 'Int', 'titer:stack', T, True))
    out.append(('Type', 'Int', 'Int', 'static', 'Type', False))
    out.append(('Type', 'Int', 'Int', 'static:b', 'Type', False))
    out.append(('Type', 'Int', 'Int', 'rtype', 'Type', False))
    out.append(('Int', 'Int', 'Int', 'range_stack', 'Int', True))
    out.append(('Int', 'Int', 'Int', 'range_heap', 'Int', True))
    out.append(('Tuple', 'Int', 'Int', 'zip_stack', 'Tuple', True))
    out.append(('Tuple', 'Int', 'Int', 'zip_heap', 'Tuple', True))
    return out


MATCHED = {      # producer -> histories whose total number of releases the property fixes
    # del_stopped = stop(current(GC)); del(x); start(current(GC)): on the unchanged tree the deletion is deferred
    # (finding F2 of C06) and the object is released exactly once by the sweep that follows
    0: {'new': ['del', 'del,sweep', 'sweep', 'sweep,sweep', 'del,sweep,sweep', 'del_stopped,sweep', 'del_stopped,sweep,sweep'],
        'copy': ['del', 'del,sweep', 'sweep', 'del_stopped,sweep'],
        'alloc': ['sweep', 'sweep,sweep', 'dealloc,sweep', 'dealloc,sweep,sweep'],
        'new_root': ['del_root', 'del_root,sweep', 'sweep', 'sweep,sweep'],
        'alloc_root': ['sweep'],
        'new_raw': ['del_raw', 'del_raw,sweep', 'sweep'],
        'rtype': ['del_raw', 'del_raw,sweep', 'sweep'],
        'alloc_raw': ['dealloc_raw', 'dealloc_raw,sweep', 'sweep']},
    1: {'new': ['del'], 'copy': ['del'], 'new_root': ['del_root'], 'new_raw': ['del_raw'], 'rtype': ['del_raw'],
        'alloc_raw': ['dealloc_raw']},
}


def excluded(ngc, T, p, op):
    """cells left out of the matrix and of the random histories (reasons in design.d/C19.md)"""
    base = p.split(':')[0]
    if op == 'sweep' and base in ('range_heap', 'zip_heap'):
        return True       # released by their owner's destructor: C06 (defect D18), not this property
    if op == 'sweep' and '+c' in p:
        return True       # copy(c) is collector-managed: an unmarked sweep rightly reclaims it with its elements
    if T == 'Range' and ((base.startswith('alloc') and not op.startswith('dealloc')) or
                         (ngc and base == 'stack' and op == 'destruct')):
        # Range_Del is del(r->value): on a merely alloc'ed (never constructed) Range that is del(NULL),
        # whatever runs the destructor (del*, a sweep); on a stack Range it is del of its stack Int
        # (ResourceError without the collector). The destructor refuses, nothing is released; the model
        # has no "owner" kind, so these cells are left out
        return True
    return False


def matrix():
    cases = []
    for ngc in (0, 1):
        for (T, K, V, p, ot, constructed) in producers():
            base = p.split(':')[0]
            for op in ops_for(ot, ngc, constructed):
                if excluded(ngc, T, p, op):
                    continue
                cases.append('%d %s %s %s %s %s' % (ngc, T, K, V, p, op))
            if constructed:
                for op in sized_ops(ot, p):
                    cases.append('%d %s %s %s %s %s' % (ngc, T, K, V, p, op))
            for h in MATCHED[ngc].get(base, []):
                if T == 'Range' and base.startswith('alloc'):
                    continue
                if ',' in h:
                    cases.append('%d %s %s %s %s %s' % (ngc, T, K, V, p, h))
    return cases


def is_nonheap(p):
    base = p.split(':')[0]
    if base in HEAP_PRODUCERS or base in ('rtype', 'range_heap', 'zip_heap'):
        return False
    if base in ('tget', 'titer') and p.endswith(':raw'):
        return False
    return True


def random_histories(rng, n):
    """arbitrary operation histories on NON-heap objects (the theorem nonheap_never_released is about
    every history); heap objects only get the matched histories above"""
    prods = [x for x in producers() if is_nonheap(x[3])]
    out = []
    for _ in range(n):
        T, K, V, p, ot, constructed = rng.choice(prods)
        ngc = rng.choice((0, 0, 1))
        ops = [o for o in ops_for(ot, ngc, constructed) if not excluded(ngc, T, p, o)]
        k = rng.choice((2, 2, 3, 3, 4, 6))
        # bias towards the in-place operations of String/Tuple when present
        extra = [o for o in ops if o in S_OPS + T_OPS + ['destruct']]
        h = [rng.choice(extra if extra and rng.random() < .5 else ops) for _ in range(k)]
        # using an object after its destructor ran is a misuse of its own (a container's storage is gone, the
        # refusal message of dealloc would print it): at most one destruct per history, and for types other
        # than String/Tuple (whose buffer the harness keeps readable) only as the last operation
        seen = False
        for i, o in enumerate(h):
            if o == 'destruct':
                if seen or (ot not in ('String', 'Tuple') and i != len(h) - 1):
                    h[i] = rng.choice(DELETING)
                seen = True
        # the model has no element count: a Tuple (3 members) shrinks at most once per history
        shrunk = False
        for i, o in enumerate(h):
            if ot == 'Tuple' and o in ('pop', 'pop_at', 'rem', 'resize'):
                if shrunk:
                    h[i] = rng.choice(['push', 'append', 'concat'])
                shrunk = True
        # argument sizes: any class for a String; for a Tuple only where everything is refused anyway (the model
        # has no element count)
        for i, o in enumerate(h):
            if o in SIZED.get(ot, {}) and (ot == 'String' or stack_buffer(p)) and rng.random() < .6:
                cl = 'esql' if (ot == 'Tuple' and o == 'resize') else SIZED[ot][o]
                h[i] = '%s@%s' % (o, rng.choice(cl))
        out.append('%d %s %s %s %s %s' % (ngc, T, K, V, p, ','.join(h)))
    return out


STEP = re.compile(r'^(\S+) fo=(\d+) ro=(\d+) fb=(\d+) rb=(\d+) i=(.)(.)(.)$')


def parse_impl(line):
    """-> (head dict, [steps], use) or error string"""
    use = None
    if ' ; use=' in line:
        line, u = line.split(' ; use=')
        use = u.strip()          # "<use> lay=<lay>"
    parts = line.split(' | ')
    m = re.match(r'^T=(\S+) A=(-?\d+) R=(\d) D=(-?\d)$', parts[0])
    if not m:
        if 'CRASH' in line or 'TIMEOUT' in line:
            return 'the library crashed or hung while the object was being obtained: ' + line.strip()[:120]
        if 'PRODFAIL container' in line:
            return ('the container (element/key/value types of this cell) could not even be built and filled: '
                    + line.strip()[:120])
        return 'no object obtained: ' + line[:200]
    steps = []
    for p in parts[1:]:
        s = STEP.match(p)
        if not s:
            return 'step not completed: ' + p[:120]
        steps.append({'out': s.group(1), 'fo': int(s.group(2)), 'ro': int(s.group(3)), 'fb': int(s.group(4)),
                      'rb': int(s.group(5)), 'h': s.group(6), 'b': s.group(7), 'c': s.group(8)})
    return ({'T': m.group(1), 'A': int(m.group(2)), 'R': int(m.group(3)), 'D': m.group(4)}, steps, use)


def strip_use(line):
    return line.split(' ; use=')[0]


F7_SIG = 'del-nonheap-silently-ignored'
F8_SIG = 'alloc-dealloc-stays-registered'


def oracle_detail(case, impl, spec):
    """-> list of (message, is_f7) : every demand of the property the implementation fails on this cell"""
    fails = []
    pi = parse_impl(impl)
    if isinstance(pi, str):
        return [(pi, False)]
    head, steps, use = pi
    sp = spec.split(' | ')
    m = re.match(r'^T=(\S+) A=(\d+)$', sp[0])
    if not m:
        return [('specification transcript unreadable: ' + spec, False)]
    if head['T'] != m.group(1):
        fails.append(('type_of gives %s, the declared type is %s' % (head['T'], m.group(1)), False))
    if head['A'] != int(m.group(2)):
        fails.append(('allocation class word is %d, expected %s' % (head['A'], m.group(2)), False))
    if head['D'] != '1':
        fails.append(('the type the container/view declares for its items (iter_type / key_type / val_type) is not the type_of the object handed out', False))
    uf = (use or '').split(' lay=')
    if len(uf) == 2 and uf[1] != '1':
        fails.append(('size(type) bytes are not usable: header + size(type) bytes of the object (or of another key/value/element of the '
                      'container it came from) do not lie inside one block the library requested from malloc, or overlap a neighbour', False))
    elif uf[0] != '1':
        fails.append(('size(type) bytes of the object are not usable (pattern write/read or header damaged)', False))
    demands, total = sp[1:-1], sp[-1].split('=')[1]
    ops = case.split(' ')[5].split(',')
    if len(steps) != len(demands):
        return fails + [('transcript has %d steps, %d operations issued (crash/timeout?): %s' % (len(steps), len(demands), impl[-80:]), False)]
    base = case.split(' ')[4].split(':')[0]
    released = 0
    for n, (st, d, op) in enumerate(zip(steps, demands, ops)):
        if d == 'any':
            released += st['fo']
            if released > 1:
                fails.append(('step %d (%s): heap object reached free() a second time' % (n, op), False))
            if op == 'sweep' and st['out'] != 'ok':
                # a collection must never throw; when it does here, it tried to finalise a block that was released before
                f8 = base == 'alloc' and ops[0].startswith('dealloc') and released == 1 and st['out'] == 'raise:ValueError'
                fails.append(('step %d (sweep): the collection gives %s: the collector tried to finalise the object again after '
                              'it had been released %d time(s)' % (n, st['out'], released), 'F8' if f8 else False))
            continue
        nh = d.startswith('nf1') or d.startswith('att1')
        if st['fo'] or st['ro']:
            fails.append(('step %d (%s): the block of a non-heap object was passed to free/realloc (free %d, realloc %d)' % (n, op, st['fo'], st['ro']), False))
        if nh and (st['fb'] or st['rb']):
            fails.append(('step %d (%s): the non-heap buffer of the object was passed to free/realloc (free %d, realloc %d)' % (n, op, st['fb'], st['rb']), False))
        if st['h'] != '1':
            fails.append(('step %d (%s): header of a non-heap object changed' % (n, op), False))
        if d.startswith('att'):
            if st['out'] not in ('raise:ResourceError', 'raise:ValueError'):
                f7 = 'F7' if d.endswith('!f7') and st['out'] == 'ok' and not (st['fo'] or st['ro'] or st['fb'] or st['rb']) \
                    and (st['h'], st['b'], st['c']) == ('1', '1', '1') else False
                fails.append(('step %d (%s): attempt on a non-heap object gives %s, the property demands ResourceError or ValueError' % (n, op, st['out']), f7))
            elif st['fb'] or st['rb']:
                fails.append(('step %d (%s): raised %s but had already passed the object\'s buffer to free/realloc (free %d, realloc %d): the object is not left intact' % (n, op, st['out'], st['fb'], st['rb']), False))
            elif '0' in (st['h'], st['b'], st['c']):
                fails.append(('step %d (%s): raised %s but the object was changed (header/body/buffer intact = %s%s%s)' % (n, op, st['out'], st['h'], st['b'], st['c']), False))
    if total != '-':
        got = sum(s['fo'] for s in steps)
        if got != int(total):
            fails.append(('heap object reached free() %d times over the history %s, exactly %s demanded' % (got, ','.join(ops), total), False))
    return fails


def oracle(case, impl, spec):
    f = oracle_detail(case, impl, spec)
    if not f:
        return None
    # every failing demand of this cell is one and the same open finding
    tags = set(k for _, k in f)
    tag = '[%s] ' % tags.pop() if len(tags) == 1 and False not in tags else ''
    return tag + '; '.join(m for m, _ in f)


def classify(case, impl, why):
    if why and case.split(' ')[0] == '0':
        if why.startswith('[F7] '):
            return F7_SIG
        if why.startswith('[F8] '):
            return F8_SIG
    return None


def _canon(step):
    """whether a step that SUCCEEDS reallocates the (heap) buffer is not the property's business: resize to the
    current length may skip the realloc.  (A buffer that is not heap memory is the oracle's matter: every demand on
    non-heap objects asks for rb=0; a step that must be refused differs from the model in its outcome.)"""
    return re.sub(r'^(ok fo=0 ro=0 fb=0) rb=\d ', r'\1 rb=* ', step)


def corr(case, impl, model):
    a = strip_use(impl)
    if a == model:
        return None
    x, y = [_canon(t) for t in a.split(' | ')], [_canon(t) for t in model.split(' | ')]
    if x == y:
        return None
    for n, (p, q) in enumerate(zip(x, y)):
        if p != q:
            return 'field %d: implementation "%s" / model "%s"' % (n, p, q)
    return 'length %d vs %d' % (len(x), len(y))


SEEN, NONTRIV = set(), set()      # distinct cells judged in this run / found non-trivial (reset by run)


def nontrivial(case, impl):
    r = _nontrivial(case, impl)
    SEEN.add(case)
    if r:
        NONTRIV.add(case)
    return r


def _nontrivial(case, impl):
    """a cell is non-trivial when the object is not a plain heap object or the operation was refused /
    released something: i.e. everything except `ok` with no event on a heap object"""
    pi = parse_impl(impl)
    if isinstance(pi, str):
        return True
    head, steps, _ = pi
    return head['A'] != 3 or any(s['out'] != 'ok' or s['fo'] or s['fb'] or s['rb'] for s in steps)


def split(case):
    f = case.split(' ')
    return ' '.join(f[:5]), f[5].split(',')


def join(pre, toks):
    return pre + ' ' + ','.join(toks)


CORPUS = [
    '0 Int Int String get:TableV del_raw',      # D22: del_raw of an embedded String released its buffer before refusing
    '0 String Int Int get:Array del_raw',       # D22
    '1 String Int Int get:List del',            # D22 without the collector: del = del_raw path
    '0 Tuple Int Int stack pop_at',             # D14: stack Tuple shifted before the refusal
    '0 Tuple Int Int stack rem',                # D14 through Tuple_Rem
    '0 String Int Int stack del_raw,resize,destruct,append',
    '0 Int Int Int stack del',                  # F7 witness (open finding)
    '0 Type Int Int static del_root',           # F7 on a static object
    '0 Int Int Int new del,sweep,sweep',
    '0 String Int Int alloc dealloc,sweep',      # F8 witness (open finding): alloc + dealloc leaves the registry entry behind
]


def run(ctx):
    quick = ctx.tier == 'quick'
    SEEN.clear(); NONTRIV.clear()
    # known_findings.json is assembled by the integrator; until then (and in scratch worktrees) take this
    # property's findings from its own fragment
    frag = os.path.join(vlib.VERIF, 'findings.d', 'C19.json')
    if os.path.exists(frag):
        for f in json.load(open(frag)):
            if not any(g.get('property') == f['property'] and g.get('signature') == f.get('signature') and g.get('what') == f.get('what') for g in ctx.findings):
                ctx.findings.append(f)
    ctx.cov['rule'] = (
        'EXHAUSTIVE finite matrix, no sampling: every (type in %s + Type) x (producer: new/new_raw/new_root/alloc/alloc_raw/'
        'alloc_root/copy/$-stack/static type object/run-time type/get of Array,List,Table,Tree (fresh, after growth+shrinking moved the elements, from copy(c), from assign(fresh,c); key and value types of different sizes)/iter_init,iter_last,iter_next,'
        'iter_prev of each container/items of slice,filter,map views/range and zip items (stack and heap form)/Tuple members) '
        'x (operation: del,del_raw,del_root,dealloc,dealloc_raw,dealloc_root,destruct,sweep + every reallocating member of String '
        'and Tuple) x (collector compiled in / -DCELLO_NGC), plus the matched delete/sweep histories of heap objects, plus seeded '
        'random operation histories (length 2-6) on non-heap objects. A cell is non-trivial unless it is an `ok` step without any '
        'free/realloc event on a plain heap object; distinct_nontrivial = distinct non-trivial implementation transcripts (cells with identical behaviour share one), nontrivial_cells = number of non-trivial cells'
        % ','.join(ELEM_TYPES + EXTRA_TYPES))
    ctx.assumptions += [
        'C text tied by correspondence only: extracted Gallina model vs library built from the working tree; header words read '
        'directly, free/realloc/malloc/calloc interposed with -Wl,--wrap (requested block sizes recorded),',
        'constants of the model (enum codes, class written at each header_init call site, dealloc refusals, del_by order, '
        'String/Tuple guards) are regenerated from the source by tools/genx_hdr.py on every run',
        'sweep = GC_Sweep with nothing marked (the object is deemed unreachable); conservative stack scanning is not part of this property']
    ctx.coq()
    drv = ctx.build_driver('Header')
    wrap = ['-Wl,--wrap=free,--wrap=realloc,--wrap=malloc,--wrap=calloc']
    h_gc = ctx.build_harness('header_matrix.c', extra=wrap)
    ctx.build_lib('ngc', cflags=['-DCELLO_NGC'])
    h_ngc = ctx.build_harness('header_matrix.c', tag='ngc', extra=wrap)
    if not quick:
        san = ['-fsanitize=address', '-fno-omit-frame-pointer']
        asan = ctx.build_lib('asan', cflags=san)
        # the conservative stack scan of GC.c reads across frames on purpose; Cello.h exempts it from
        # ASan only under clang (CELLO_NASAN), so with gcc take GC.o from the uninstrumented build
        vlib.sh(['ar', 'r', asan['a'], ctx.libs['default']['objs']['GC']])
        h_asan = ctx.build_harness('header_matrix.c', tag='asan', extra=wrap + san)
    env = dict(os.environ, ASAN_OPTIONS='detect_leaks=0:abort_on_error=1')

    def run_on(exes):
        def run_impl(cs):
            res = [None] * len(cs)
            for flag, exe in exes.items():
                idx = [i for i, c in enumerate(cs) if c.startswith(flag + ' ')]
                if idx:
                    rc, lines, err = ctx.run_lines(exe, [cs[i] for i in idx], env=env)
                    if len(lines) != len(idx):
                        raise RuntimeError('harness produced %d lines for %d cases: %s' % (len(lines), len(idx), err[-500:]))
                    for i, l in zip(idx, lines):
                        res[i] = l
            return [r if r is not None else 'BADCASE config' for r in res]
        return run_impl

    run_impl = run_on({'0': h_gc, '1': h_ngc})
    run_model = lambda cs: ctx.run_lines(drv, cs, args=['model'])[1]
    run_spec = lambda cs: ctx.run_lines(drv, cs, args=['spec'])[1]
    d = vlib.Differential(ctx, 'header_matrix', run_impl, run_model, run_spec, oracle, corr, nontrivial, split, join, classify)

    rp = os.environ.get('VERIF_REPLAY')
    if rp:
        r = json.load(open(rp))
        d.feed([r['case']] if 'case' in r else CORPUS)
        for x in d.oracle_fail + d.corr_fail:
            print('REPLAY: %s\n  impl  %s\n  model %s\n  spec  %s' % (x[4], x[1], x[2], x[3]))
        d.report()
        return

    d.feed(CORPUS, 'corpus')
    cells = matrix()
    ctx.rng.shuffle(cells)
    for i in range(0, len(cells), 3000):
        d.feed(cells[i:i + 3000])
    ctx.cov['exhaustive'] = True
    ctx.cov['matrix_cells'] = len(cells)
    # distinct_nontrivial (vlib) counts distinct implementation TRANSCRIPTS (many cells share one: every embedded
    # Int refuses dealloc identically); the number of non-trivial CELLS is recorded next to it
    ctx.cov['nontrivial_cells'] = 0
    hist = random_histories(ctx.rng, 1500 if quick else 30000)
    d.feed(hist)
    if not quick:
        # the whole matrix again under AddressSanitizer (collector build): size(type) bytes usable, no stray access
        d2 = vlib.Differential(ctx, 'header_matrix_asan', run_on({'0': h_asan}), run_model, run_spec, oracle, corr, nontrivial, split, join, classify)
        d2.feed([c for c in cells if c.startswith('0 ')])
        d2.report()

    # the open finding F7 must be re-confirmed on every run by its recorded witness
    ctx.cov['nontrivial_cells'] = len(NONTRIV)
    ctx.cov['distinct_cells'] = len(SEEN)
    for sig, key in ((F7_SIG, 'f7_cells'), (F8_SIG, 'f8_cells')):
        ctx.cov[key] = sum(1 for (c, i, m, s, why) in d.oracle_fail if classify(c, i, why) == sig)
        if not ctx.cov[key]:
            ctx.notes.append('open finding %s did not reproduce in this run: update findings.d/C19.json' % sig)

    def extra(dd):
        dd.feed(random_histories(ctx.rng, 15000))
    d.report(extra)
