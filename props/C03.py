"""C03 — Tree is an ordered map and stays a valid red-black tree."""
import os, json, re, itertools
import vlib

BIG = [0, 1, -1, 2**31 - 1, 2**31, -2**31, -2**31 - 1, 2**32, 2**32 + 1, -2**32, 2**33, 2**62, -2**62,
       2**63 - 1, 2**63 - 2, -2**63, -2**63 + 1, 3 * 2**31, -3 * 2**31, 2**40, -2**40 + 7]
STRS = ['', '61', '6161', '616161', '62', '6162', '6261', '41', '7a', '7f', '80', 'ff', 'ff01', '61ff', '6180',
        '01', '0101', '20', '30', '3939', '5a5a5a5a5a5a5a5a', '6162636465666768696a6b6c6d6e6f70']

# ------------------------------------------------------------------ transcript parsing
TOK = re.compile(r'\[([RB])([^=,\]\[]*)=(-?\d+),|(\.)|(,)|(\])')
_shape_cache = {}


def parse_shape(s):
    """shape text -> dict(items=[(k,v)] in-order, ok=None|reason, height, n, edges=set, two=set(keys with two children), root=key)
    Checks: root black, no red node with a red child, equal black height on every path."""
    r = _shape_cache.get(s)
    if r is not None:
        return r
    if len(_shape_cache) > 20000:
        _shape_cache.clear()
    res = {'items': [], 'ok': None, 'height': 0, 'n': 0, 'edges': set(), 'two': set(), 'root': None, 'leafblack': set()}
    if '!' in s:
        res['ok'] = 'harness marker %s' % s[s.index('!'):][:12]
        _shape_cache[s] = res
        return res
    pos = 0

    def node(parent_red, parent_key, side):
        # returns (black_height, height) ; appends in-order
        nonlocal pos
        m = TOK.match(s, pos)
        if not m:
            raise ValueError('unparsable shape at %d' % pos)
        pos = m.end()
        if m.group(4):
            return 0, 0
        if not m.group(1):
            raise ValueError('unexpected token at %d' % pos)
        red = m.group(1) == 'R'
        k, v = m.group(2), m.group(3)
        if red and parent_red and res['ok'] is None:
            res['ok'] = 'red node %s has a red parent' % k
        if parent_key is not None:
            res['edges'].add((parent_key, side, k))
        bl, hl = node(red, k, 'L')
        res['items'].append((k, v))
        mm = TOK.match(s, pos)
        if not mm or not mm.group(5):
            raise ValueError('comma expected at %d' % pos)
        pos = mm.end()
        br, hr = node(red, k, 'R')
        mm = TOK.match(s, pos)
        if not mm or not mm.group(6):
            raise ValueError('] expected at %d' % pos)
        pos = mm.end()
        if bl != br and res['ok'] is None:
            res['ok'] = 'black heights %d and %d below %s' % (bl, br, k)
        if hl and hr:
            res['two'].add(k)
        if not hl and not hr and not red:
            res['leafblack'].add(k)
        return bl + (0 if red else 1), 1 + max(hl, hr)

    try:
        if s.startswith('[R'):
            res['ok'] = 'root is red'
        if s.startswith('['):
            res['root'] = TOK.match(s, 0).group(2)
        bh, h = node(False, None, None)
        if pos != len(s):
            raise ValueError('trailing text')
        res['height'] = h
        res['n'] = len(res['items'])
    except (ValueError, RecursionError) as e:
        res['ok'] = 'shape dump not understood: %s' % e
    _shape_cache[s] = res
    return res


def steps(line):
    return [p.split(';') for p in line.split(' | ')]


def keyval(kt, k):
    return int(k) if kt == 'I' else bytes.fromhex(k[1:])


def oracle(case, impl, spec):
    kt = case[0]
    pi, ps = steps(impl), steps(spec)
    for n, b in enumerate(ps):
        if n >= len(pi):
            return 'step %d missing from the implementation transcript (%d of %d steps)' % (n, len(pi), len(ps))
        a = pi[n]
        if len(a) != 5:
            return 'step %d: %s' % (n, ';'.join(a)[:80])
        out, ln, shape, fwd, bwd = a
        if out != b[0]:
            return 'step %d: outcome %s, specification says %s' % (n, out, b[0])
        if ln != b[1]:
            return 'step %d: len %s, specification says %s' % (n, ln, b[1])
        if '!' in shape:
            return 'step %d: not a valid red-black tree: %s' % (n, parse_shape(shape)['ok'])
        want = b[2].split(',') if b[2] else []
        got = fwd.split(',') if fwd else []
        # "strictly monotone key order": the specification keeps the bindings in DESCENDING key order (what the
        # code does today); a consistently ascending implementation would satisfy the property text as well
        if got != want and got != want[::-1]:
            return 'step %d: forward iteration / get yields %s, ordered bindings are %s' % (n, fwd, b[2])
        keys = [kv.split('=')[0] for kv in got]
        kv = [keyval(kt, k) for k in keys]
        if any(not (x > y) for x, y in zip(kv, kv[1:])) and any(not (x < y) for x, y in zip(kv, kv[1:])):
            return 'step %d: forward iteration %s is not strictly monotone' % (n, fwd)
        if (bwd.split(',') if bwd else []) != keys[::-1]:
            return 'step %d: backward iteration %s is not the reverse of forward iteration %s' % (n, bwd, ','.join(keys))
        sh = parse_shape(shape)
        if sh['ok']:
            return 'step %d: not a valid red-black tree: %s' % (n, sh['ok'])
        ino = ['%s=%s' % x for x in sh['items']]
        if ino != got and ino != got[::-1]:
            return 'step %d: in-order contents of the tree %s differ from the ordered bindings %s' % (n, ','.join(ino), b[2])
        if 2 ** sh['height'] > (sh['n'] + 1) ** 2:
            return 'step %d: height %d exceeds 2*log2(%d+1)' % (n, sh['height'], sh['n'])
    if len(pi) != len(ps):
        return 'implementation transcript has %d steps, specification %d: %s' % (len(pi), len(ps), ';'.join(pi[-1])[:60])
    return None


def corr(case, impl, model):
    if impl == model:
        return None
    a, b = impl.split(' | '), model.split(' | ')
    for n, (x, y) in enumerate(zip(a, b)):
        if x != y:
            return 'step %d: implementation %s / model %s' % (n, x, y)
    return 'length %d vs %d' % (len(a), len(b))


def split(case):
    kt, ops = case.split('|', 1)
    return kt, ops.split(' ')


def join(kt, toks):
    return kt + '|' + ' '.join(toks)


def kinds(case, impl):
    """which boundary situations a case exercised (from consecutive shapes of the implementation)"""
    got = set()
    toks = [t for t in case.split('|', 1)[1].split(' ') if t]
    if toks and toks[0][0] == 'n':
        toks = toks[1:]
    st = steps(impl)
    prev = None
    for n, a in enumerate(st):
        if len(a) != 5:
            break
        sh = parse_shape(a[2])
        if sh['ok']:
            break
        if prev is not None and n - 1 < len(toks):
            op = toks[n - 1]
            if op[0] == 's' and sh['n'] == prev['n'] + 1:
                if not prev['edges'] <= sh['edges']:
                    got.add('insert-rotation')
                elif prev['n'] >= 2 and a[2].count('R') != st[n - 1][2].count('R') + 1:
                    got.add('insert-recolour')
            elif op[0] == 'r' and a[0] == 'ok':
                k = op[1:] if case[0] == 'I' else 'x' + op[1:]
                if k in prev['two']:
                    got.add('remove-two-children')
                if k == prev['root']:
                    got.add('remove-root')
                if k in prev['leafblack'] and prev['n'] > 1:
                    got.add('remove-black-leaf')
                if sh['n'] == 0:
                    got.add('drained')
        prev = sh
    return got


HIST = {}
_seen = set()


def nontrivial(case, impl):
    g = kinds(case, impl)
    if case not in _seen:
        _seen.add(case)
        for x in g:
            HIST[x] = HIST.get(x, 0) + 1
    return bool(g & {'insert-rotation', 'remove-two-children', 'remove-black-leaf'})


# ------------------------------------------------------------------ generators
def ktok(kt, k):
    return str(k) if kt == 'I' else k


def gen_case(rng, maxops, style=None):
    style = style or rng.choice(['asc', 'desc', 'alt', 'random', 'random', 'drain', 'dups', 'big', 'small', 'str', 'mixed'])
    kt = 'S' if style == 'str' else 'I'
    nops = rng.randrange(1, maxops)
    if style == 'str':
        univ = rng.sample(STRS, rng.randrange(2, len(STRS)))
    elif style == 'big':
        univ = rng.sample(BIG, rng.randrange(3, len(BIG)))
    elif style in ('dups', 'small'):
        univ = list(range(rng.choice([2, 3, 4, 5, 6])))
    else:
        n = rng.choice([4, 7, 8, 15, 16, 31, 40])
        base = rng.choice([0, 0, -20, 2**31 - 10, -2**63, 2**63 - 1 - n])
        univ = [base + i for i in range(n)]
    ops = []
    live = set()
    vctr = [rng.randrange(1000)]

    def val():
        vctr[0] += 1
        return vctr[0]

    def s(k):
        ops.append('s%s,%d' % (ktok(kt, k), val())); live.add(k)

    def r(k):
        ops.append('r%s' % ktok(kt, k)); live.discard(k)

    def probe():
        k = rng.choice(univ)
        ops.append(rng.choice('gm') + ktok(kt, k))

    if rng.random() < .15:
        init = [(rng.choice(univ), val()) for _ in range(rng.randrange(0, 7))]
        ops.append('n' + ','.join('%s:%d' % (ktok(kt, k), v) for k, v in init))
        live.update(k for k, _ in init)
    if style in ('asc', 'desc', 'alt'):
        ks = sorted(univ)
        if style == 'desc':
            ks = ks[::-1]
        if style == 'alt':
            ks = [x for pair in itertools.zip_longest(ks[:len(ks) // 2], ks[::-1][:(len(ks) + 1) // 2]) for x in pair if x is not None]
        for k in ks:
            s(k)
            if rng.random() < .1:
                probe()
        order = rng.choice(['same', 'rev', 'rnd', 'none'])
        rs = {'same': ks, 'rev': ks[::-1], 'rnd': rng.sample(ks, len(ks)), 'none': []}[order]
        for k in rs[:rng.randrange(0, len(rs) + 1)]:
            r(k)
            if rng.random() < .1:
                probe()
    elif style == 'drain':
        for rounds in range(rng.choice([1, 2, 3])):
            ks = rng.sample(univ, rng.randrange(1, len(univ) + 1))
            for k in ks:
                s(k)
            x = rng.random()
            if x < .2:
                ops.append('z0'); live.clear()
            else:
                for k in rng.sample(sorted(live), len(live)):
                    r(k)
            if rng.random() < .3:
                probe()
    while len(ops) < nops:
        x = rng.random()
        k = rng.choice(univ)
        if x < (.6 if style == 'dups' else .42):
            s(k)
        elif x < .70:
            if live and rng.random() < .85:
                k = rng.choice(sorted(live, key=str))
            r(k)
        elif x < .80:
            ops.append('g' + ktok(kt, k))
        elif x < .88:
            ops.append('m' + ktok(kt, k))
        elif x < .91:
            z = rng.choice([0, 0, 0, 1, 5])
            ops.append('z%d' % z)
            if z == 0:
                live.clear()
        elif x < .96:
            ops.append('c')
        else:
            prs = [(rng.choice(univ), val()) for _ in range(rng.randrange(0, 9))]
            ops.append('a' + ','.join('%s:%d' % (ktok(kt, k), v) for k, v in prs))
            live.clear(); live.update(k for k, _ in prs)
    return kt + '|' + ' '.join(ops[:maxops])


def targeted(ctx, run_model, n, rounds):
    """cases aimed at the deletion case splits: the shape reached by a prefix is read off the MODEL and the
    next removal is aimed at the root / a node with two children / a black leaf (double-black repair)."""
    rng = ctx.rng
    cases = []
    for i in range(n):
        m = rng.choice([3, 5, 7, 9, 12, 15, 20, 30])
        ks = rng.sample(range(-40, 60), m)
        cases.append(['s%d,%d' % (k, i + j) for j, k in enumerate(ks)])
    aims = [rng.choice(['root', 'two', 'leafblack', 'two', 'leafblack']) for _ in range(n)]
    for rd in range(rounds):
        out = run_model(['I|' + ' '.join(c) for c in cases])
        for i, line in enumerate(out):
            last = line.split(' | ')[-1].split(';')
            if len(last) != 5:
                continue
            sh = parse_shape(last[2])
            if sh['ok'] or not sh['n']:
                cases[i].append('s%d,%d' % (rng.randrange(-40, 60), rd))
                continue
            pool = {'root': [sh['root']], 'two': sorted(sh['two']), 'leafblack': sorted(sh['leafblack'])}[aims[i]]
            if not pool:
                pool = [sh['root']]
            cases[i].append('r' + rng.choice(pool))
            if rng.random() < .3:
                cases[i].append('s%d,%d' % (rng.randrange(-40, 60), rd))
            if rng.random() < .2:
                aims[i] = rng.choice(['root', 'two', 'leafblack'])
    return ['I|' + ' '.join(c) for c in cases]


def exhaustive(nkeys, nops):
    """all sequences of exactly nops operations set/rem over nkeys keys (every shorter sequence is a prefix;
    the transcript is checked after every step)"""
    alpha = ['s%d,%d' % (k, k + 10) for k in range(nkeys)] + ['r%d' % k for k in range(nkeys)]
    for seq in itertools.product(alpha, repeat=nops):
        yield 'I|' + ' '.join(seq)


def state_closure(run_model, feed, nkeys, depth, stop):
    """breadth-first closure over tree STATES: from one representative history of every distinct tree (shape, colours,
    keys) reachable within `depth` operations, every operation set k / rem k is applied once.  The model is a function
    of the state, so this visits every transition of every history of that length over these keys; the implementation
    is run on the representative history + the operation.  Returns (#states, #transitions)."""
    alpha = ['s%d,%d' % (k, k + 10) for k in range(nkeys)] + ['r%d' % k for k in range(nkeys)]
    seen = {'.': []}
    frontier = ['.']
    trans = 0
    for dep in range(depth):
        cases, src = [], []
        for st in frontier:
            for a in alpha:
                cases.append('I|' + ' '.join(seen[st] + [a]))
                src.append(seen[st] + [a])
        if not cases:
            break
        trans += len(cases)
        feed(cases)
        if stop():
            break
        nxt = []
        for toks, line in zip(src, run_model(cases)):
            last = line.split(' | ')[-1].split(';')
            if len(last) == 5 and last[2] not in seen:
                seen[last[2]] = toks
                nxt.append(last[2])
        frontier = nxt
    return len(seen), trans


CORPUS = [
    'I|s1,1 s2,2 s3,3 s4,4 s5,5 s6,6 s7,7 s8,8 r4 r2 r6 r1 r8 g3 g4 m5 r5 r3 r7 s9,9',
    'I|s5,1 s3,2 s8,3 s1,4 s4,5 s7,6 s9,7 r5 r4 r8 g5 m7 c r7 r1 r3 r9 r9',
    'I|s-9223372036854775808,1 s9223372036854775807,2 s0,3 s4294967296,4 s-4294967296,5 s2147483648,6 g4294967296 r0 g0',
    'I|n3:1,1:2,2:3,3:9 g3 s4,4 s5,5 z0 g3 s3,3 z2 a5:1,4:2,3:3,2:4,1:5,5:7 c r3',
    'S|s61,1 s,2 s6161,3 s62,4 sff,5 s80,6 s7f,7 r61 g m61 r r',
]


def run(ctx):
    quick = ctx.tier == 'quick'
    ctx.cov['rule'] = (
        'seeded operation sequences (new-with-pairs/set/rem/get/mem/resize/copy/assign-from-tree) over Int keys '
        '(ascending, descending, alternating low/high, random over universes of 2..40 keys, drain-and-refill, '
        'duplicates over 2..6 keys, magnitudes up to +-2^63, windows at the int64 limits) and String keys (hex-coded '
        'byte strings incl. prefixes, empty string, bytes >= 0x80); plus removals AIMED at the root / a node with '
        'two children / a black leaf of the shape reached so far (read off the model); every run adds the closure over tree states for 5 keys (each set/rem '
        'from every distinct reachable tree), thorough also every sequence of 6 set/rem operations over 4 keys. A case is non-trivial when an insertion changed an '
        'existing parent-child edge (a rotation happened: shape differs from plain BST insertion), or a node with '
        'two children was removed (predecessor copy), or a black leaf with a parent was removed (double-black '
        'repair); distinct = distinct implementation transcripts among the non-trivial ones')
    ctx.assumptions += ['C text tied by correspondence only: extracted Gallina model vs library built from the working tree, '
                        'white-box shape, colours, keys and values compared after every operation',
                        'parent pointers are not in the functional model: their consistency is checked by the harness itself '
                        '(modelled, not verified)',
                        'key order: Int_Cmp modelled as Z.compare on int64 values, String_Cmp (strcmp) as the lexicographic '
                        'order of unsigned bytes']
    ctx.coq()
    drv = ctx.build_driver('Tree')
    h = ctx.build_harness('tree_wb.c', whitebox='Tree')
    def run_impl(cs):
        # every case runs in a forked child with a 6 s watchdog (a case needs milliseconds); an isolated TIMEOUT
        # (machine under load) is re-run once with a longer watchdog before it is judged
        out = ctx.run_lines(h, cs, timeout=120 + 7 * len(cs), env=dict(os.environ, H_TIMEOUT='6'))[1]
        slow = [i for i, l in enumerate(out) if 'TIMEOUT' in l]
        if 0 < len(slow) <= 2 and len(out) == len(cs):
            again = ctx.run_lines(h, [cs[i] for i in slow], timeout=120, env=dict(os.environ, H_TIMEOUT='15'))[1]
            for i, l in zip(slow, again):
                out[i] = l
        return out
    run_model = lambda cs: ctx.run_lines(drv, cs, args=['model'])[1]
    run_spec = lambda cs: ctx.run_lines(drv, cs, args=['spec'])[1]
    d = vlib.Differential(ctx, 'tree', run_impl, run_model, run_spec, oracle, corr, nontrivial, split, join)
    feed = d.feed
    rp = os.environ.get('VERIF_REPLAY')
    if rp:
        r = json.load(open(rp))
        d.feed([r['case']] if 'case' in r else CORPUS)
        for x in d.oracle_fail + d.corr_fail:
            print('REPLAY: %s\n  impl  %s\n  model %s\n  spec  %s' % (x[4], x[1], x[2], x[3]))
        d.report()
        return
    n = 850 if quick else 100000
    maxops = 80 if quick else 200

    def stream():
        yield CORPUS
        tg = targeted(ctx, run_model, 150 if quick else 3000, 10 if quick else 25)
        yield tg[:20]
        yield tg[20:]
        for i in range(0, n, 500):
            yield [gen_case(ctx.rng, maxops if j % 4 else 14) for j in range(i, min(n, i + 500))]
        if not quick:
            ex = exhaustive(4, 6)
            cnt = 0
            while True:
                chunk = list(itertools.islice(ex, 2000))
                if not chunk:
                    break
                cnt += len(chunk)
                yield chunk
            ctx.cov['exhaustive'] = {'what': 'all sequences of 6 operations from {set k, rem k | k in 0..3}, checked after '
                                             'every step (bounded search, not the claim)', 'cases': cnt}
    for batch in stream():
        feed(batch)
        if d.oracle_fail:
            break            # a concrete failing input is in hand: report it (a hanging library makes every case slow)
    if not d.oracle_fail:
        nk = 5 if quick else 8
        ns, nt = state_closure(run_model, feed, nk, 8 if quick else 40, lambda: bool(d.oracle_fail))
        ctx.cov['state_closure'] = {'what': 'every operation set k / rem k (k in 0..%d) applied to every distinct tree state '
                                            'reachable within %d operations from the empty tree (one representative '
                                            'history per state; bounded search, not the claim)' % (nk - 1, 8 if quick else 40),
                                    'states': ns, 'transitions': nt}
    ctx.cov['case_kinds'] = dict(HIST)

    def extra(dd):
        dd.feed(targeted(ctx, run_model, 1500, 12))
        dd.feed([gen_case(ctx.rng, 40) for _ in range(10 * min(n, 3000))])
        if quick:
            dd.feed(list(exhaustive(4, 5)))
    if getattr(ctx, 'proof_broken', None) and not d.oracle_fail and not d.corr_fail:
        extra(d)             # a broken proof obligation: directed search for a concrete failing input
    d.report(extra)
