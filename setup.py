#!/usr/bin/env python3
"""MANIFEST.setup_cmd: build the whole Coq development (full .vo) and all extractions
from the files on disk, offline.  Checks afterwards only rebuild incrementally."""
import sys, os, subprocess, time
sys.path.insert(0, os.path.dirname(os.path.abspath(__file__)))
import vlib
t = time.time()
rc, o, e = vlib.sh([sys.executable, os.path.join(vlib.VERIF, 'tools', 'gen_params.py'), vlib.REPO,
                    os.path.join(vlib.COQ, 'Generated.v')])
print(o.strip())
vlib.ensure_coq_makefile()
os.makedirs(os.path.join(vlib.VERIF, 'ocaml', 'gen'), exist_ok=True)
rc = subprocess.call(['make', '-C', vlib.COQ, '-k', '-j%d' % vlib.NCPU], stdout=subprocess.DEVNULL)
print('coq build rc=%d in %.0fs' % (rc, time.time() - t))
bad = vlib.forbidden_gate()
if bad:
    print('forbidden constructs:', bad)
sys.exit(0)
