"""Common machinery for the Cello verification checks (see DESIGN.md sections 3, 5, 6).

Every check is   python3 check.py <ID> --tier quick|thorough
and runs:  build /repo's working tree into a temp dir  ->  regenerate coq/Generated.v
-> build the Coq cone of Properties_<ID>.v (full .vo) and re-check the property file
itself with coqc (Print Assumptions parsed)  ->  property-specific correspondence and
oracle runs (extracted OCaml model vs the real library)  ->  verdict + evidence.
"""
import os, sys, json, time, subprocess, tempfile, shutil, re, hashlib, random, fcntl, glob

VERIF = os.path.dirname(os.path.abspath(__file__))
_rf = os.path.join(VERIF, '.cello_repo')      # scratch worktrees point at their own repo copy
REPO = os.environ.get('CELLO_REPO') or (open(_rf).read().strip() if os.path.exists(_rf) else '/repo')
COQ = os.path.join(VERIF, 'coq')
GUARD = 'CELLO_VERIF'
NCPU = os.cpu_count() or 4
BASE_CFLAGS = ['-std=gnu99', '-g', '-fPIC', '-DCELLO_NSTRACE', '-D' + GUARD, '-w']


def sh(cmd, timeout=None, cwd=None, env=None, input=None):
    """Run a command (list), return (rc, stdout, stderr); rc = -9 on timeout."""
    try:
        p = subprocess.run(cmd, cwd=cwd, env=env, input=input, timeout=timeout,
                           stdout=subprocess.PIPE, stderr=subprocess.PIPE, text=True,
                           errors='replace')
        return p.returncode, p.stdout, p.stderr
    except subprocess.TimeoutExpired as e:
        out = e.stdout.decode(errors='replace') if isinstance(e.stdout, bytes) else (e.stdout or '')
        err = e.stderr.decode(errors='replace') if isinstance(e.stderr, bytes) else (e.stderr or '')
        return -9, out, err


class Rng(random.Random):
    """All randomness of a run derives from VERIF_SEED through this class."""
    pass


class Ctx:
    def __init__(self, pid, tier, seed):
        self.pid, self.tier, self.seed = pid, tier, seed
        self.t0 = time.time()
        self.tmp = tempfile.mkdtemp(prefix='cellov_%s_' % pid)
        self.rng = Rng(seed * 1000003 + int(pid[1:]))
        self.violations = []      # (replay_path, no_failing_input)
        self.known_hits = []      # lines printed as KNOWN-FINDING
        self.cov = {'evaluations': 0, 'distinct_nontrivial': 0, 'rule': '', 'samples': [],
                    'obligations': 0, 'discharged': 0, 'checker_cmd': '', 'trusted_base': [],
                    'traces_validated_against_impl': 0}
        self.assumptions = []
        self.libs = {}
        self.notes = []
        self._distinct = set()
        self.findings = load_findings()

    # ---------------------------------------------------------------- library build
    def build_lib(self, tag='default', cflags=(), cc='gcc', exclude=(), nosan=('GC',)):
        """Compile REPO/src/*.c (current working tree) into tmp/<tag>/, return dict.
        Files named in `nosan` are compiled without -fsanitize=... flags (GC.c scans the stack
        conservatively on purpose, which AddressSanitizer reports as a stack overflow)."""
        if tag in self.libs:
            return self.libs[tag]
        d = os.path.join(self.tmp, 'lib_' + tag)
        os.makedirs(d)
        srcs = sorted(glob.glob(os.path.join(REPO, 'src', '*.c')))
        flags = BASE_CFLAGS + list(cflags) + ['-I', os.path.join(REPO, 'include')]
        procs = []
        for s in srcs:
            o = os.path.join(d, os.path.basename(s)[:-2] + '.o')
            fl = [f for f in flags if not f.startswith('-fsanitize')] if os.path.basename(s)[:-2] in nosan else flags
            procs.append((s, o, subprocess.Popen([cc] + fl + ['-c', s, '-o', o],
                                                 stdout=subprocess.PIPE, stderr=subprocess.STDOUT)))
            while sum(1 for _, _, p in procs if p.poll() is None) >= NCPU:
                time.sleep(0.005)
        objs = {}
        for s, o, p in procs:
            out = p.communicate()[0]
            if p.returncode != 0:
                raise BuildError('library does not compile: %s\n%s' % (s, out.decode(errors='replace')[-2000:]))
            objs[os.path.basename(s)[:-2]] = o
        a = os.path.join(d, 'libCello.a')
        rc, o, e = sh(['ar', 'rcs', a] + list(objs.values()))
        if rc != 0:
            raise BuildError('ar failed: ' + e)
        lib = {'dir': d, 'a': a, 'objs': objs, 'flags': flags, 'cc': cc}
        self.libs[tag] = lib
        return lib

    def build_harness(self, src, tag='default', name=None, whitebox=None, extra=(), libs=('-lpthread', '-lm')):
        """Compile harness/<src> against the library built from REPO.
        whitebox = 'Table' means the harness #includes REPO/src/Table.c itself (access to
        statics) and is linked against every object except Table.o."""
        lib = self.build_lib(tag) if tag not in self.libs else self.libs[tag]
        name = name or os.path.splitext(os.path.basename(src))[0]
        exe = os.path.join(self.tmp, name + '_' + tag)
        srcp = src if os.path.isabs(src) else os.path.join(VERIF, 'harness', src)
        cmd = [lib['cc']] + lib['flags'] + ['-I', os.path.join(VERIF, 'harness'),
               '-I', os.path.join(REPO, 'src')] + list(extra) + [srcp]
        if whitebox:
            wb = [whitebox] if isinstance(whitebox, str) else list(whitebox)
            cmd += [o for k, o in lib['objs'].items() if k not in wb]
        else:
            cmd += [lib['a']]
        cmd += ['-o', exe] + list(libs)
        rc, o, e = sh(cmd, timeout=300)
        if rc != 0:
            raise HarnessBuildError('harness %s does not build:\n%s' % (src, (o + e)[-3000:]))
        return exe

    # ---------------------------------------------------------------- Coq side
    def gen_params(self):
        """Regenerate coq/Generated.v from the working tree (a pattern that no longer matches leaves its
        definition out and is listed in self.gen_broken)."""
        gp = os.path.join(VERIF, 'tools', 'gen_params.py')
        out = os.path.join(COQ, 'Generated.v')
        rc, o, e = sh([sys.executable, gp, REPO, out], timeout=120)
        self.gen_status = o.strip().splitlines()
        self.gen_broken = [l for l in self.gen_status if l.startswith('FAIL')]
        if rc != 0:
            self.notes.append('gen_params: pattern failure: ' + '; '.join(self.gen_broken)[:800])
        return rc == 0

    def gen_fallback(self):
        """The models of this property can no longer be regenerated from the working tree.  So that the
        SEARCH for a concrete failing input can still run, build them from the last known-good source
        (commit recorded in /verif/GOOD_COMMIT, taken from the repository's own history)."""
        gp = os.path.join(VERIF, 'tools', 'gen_params.py')
        out = os.path.join(COQ, 'Generated.v')
        good = os.path.join(VERIF, 'GOOD_COMMIT')
        if not os.path.exists(good):
            return False
        c = open(good).read().strip()
        d = os.path.join(self.tmp, 'good_src')
        os.makedirs(d, exist_ok=True)
        p1 = subprocess.run('git -C %s archive %s src include | tar -x -C %s' % (REPO, c, d), shell=True,
                            stdout=subprocess.PIPE, stderr=subprocess.PIPE)
        if p1.returncode != 0:
            return False
        rc2, o2, e2 = sh([sys.executable, gp, d, out], timeout=120)
        if rc2 != 0:
            return False
        self.gen_fallback_commit = c
        self.notes.append('models built from the last known-good source %s to search for a failing input' % c[:10])
        return True

    def coq(self, propfile=None, timeout=3000):
        """Build the dependency cone of Properties_<pid>.v with make (full .vo), then
        re-run coqc on the property file itself and parse Print Assumptions."""
        propfile = propfile or ('Properties_%s.v' % self.pid)
        self.gen_params()
        t = time.time()
        with open(os.path.join(COQ, '.lock'), 'w') as lk:
            fcntl.flock(lk, fcntl.LOCK_EX)
            ensure_coq_makefile()
            deps = coq_deps(propfile)
            cmd = ['make', '-C', COQ, '-j%d' % NCPU] + [d for d in deps]
            rc, o, e = sh(cmd, timeout=timeout) if deps else (0, '', '')
            self.gen_dependent = False
            if rc != 0 and self.gen_broken:
                # the cone of this property needs a parameter that can no longer be read off the source
                first = (o + e)[-1500:]
                if self.gen_fallback():
                    self.gen_dependent = True
                    self.gen_first_error = first
                    rc, o, e = sh(cmd, timeout=timeout)
            fcntl.flock(lk, fcntl.LOCK_UN)
        src = open(os.path.join(COQ, propfile)).read()
        thms = re.findall(r'^\s*Theorem\s+([A-Za-z0-9_\']+)', src, re.M)
        self.cov['obligations'] = len(thms)
        self.cov['checker_cmd'] = ('python3 tools/gen_params.py %s coq/Generated.v && make -C coq -j%d %s && coqc -Q coq CelloV coq/%s'
                                   % (REPO, NCPU, ' '.join(deps), propfile))
        self.theorems = thms
        gate = forbidden_gate()
        if gate:
            self.cov['discharged'] = 0
            self.proof_broken = 'forbidden construct in development: ' + '; '.join(gate[:5])
            return False
        if rc != 0:
            self.cov['discharged'] = 0
            m = re.search(r'File "([^"]+)", line (\d+)', o + e)
            self.proof_broken = 'dependency of %s does not compile (%s): %s' % (
                propfile, (m.group(1) + ':' + m.group(2)) if m else '?', (o + e)[-1500:])
            return False
        # the property file itself: always re-checked, output captured
        out = os.path.join(self.tmp, 'prop_out')
        os.makedirs(out, exist_ok=True)
        tmpv = os.path.join(out, propfile)
        shutil.copy(os.path.join(COQ, propfile), tmpv)
        rc, o, e = sh(['coqc', '-Q', COQ, 'CelloV', '-Q', out, 'CelloVTmp', tmpv], timeout=timeout)
        self.coq_wall = time.time() - t
        txt = o + e
        if rc != 0:
            m = re.search(r'line (\d+)', txt)
            line = int(m.group(1)) if m else 0
            done = 0
            for mm in re.finditer(r'^\s*Theorem\s+([A-Za-z0-9_\']+)', src, re.M):
                ln = src[:mm.start()].count('\n') + 1
                # a theorem is discharged if its Qed lies before the failing line
                qed = src.find('Qed.', mm.start())
                qln = src[:qed].count('\n') + 1 if qed >= 0 else 10 ** 9
                if qln < line:
                    done += 1
            self.cov['discharged'] = done
            self.proof_broken = 'coqc rejects %s at line %d: %s' % (propfile, line, txt[-1500:])
            return False
        self.cov['discharged'] = len(thms)
        self.proof_broken = None
        if getattr(self, 'gen_dependent', False):
            # the theorems were re-checked against parameters of the last known-good source, not of the
            # working tree: the tie is broken even though the files compile
            used = [g.split()[1] for g in self.gen_broken if len(g.split()) > 1]
            self.cov['discharged'] = 0
            self.proof_broken = ('coq/Generated.v can no longer be regenerated from the working tree: pattern(s) %s '
                                 'do not match the source any more (obligations re-checked only against the last known-good source)'
                                 % ', '.join(used))
        # Print Assumptions parsing
        axioms = {}
        blocks = re.split(r'(?=Closed under the global context|Axioms:)', o)
        pa = re.findall(r'Print Assumptions\s+([A-Za-z0-9_\']+)', src)
        idx = 0
        for b in blocks:
            if b.startswith('Closed under the global context'):
                if idx < len(pa):
                    axioms[pa[idx]] = []
                idx += 1
            elif b.startswith('Axioms:'):
                names = re.findall(r'^([A-Za-z_][A-Za-z0-9_\.\']*)\s*:', b[len('Axioms:'):], re.M)
                if idx < len(pa):
                    axioms[pa[idx]] = names
                idx += 1
        self.axioms = axioms
        tb = ['Coq 8.16.1 kernel (coqc, full .vo build, vm_compute for finite side conditions; no native_compute)']
        for th in thms:
            ax = axioms.get(th)
            if ax is None:
                tb.append('theorem %s: Print Assumptions missing' % th)
            elif ax:
                tb.append('theorem %s depends on axioms: %s' % (th, ', '.join(ax)))
            else:
                tb.append('theorem %s: closed under the global context (no axioms)' % th)
        self.cov['trusted_base'] = tb
        missing = [th for th in thms if th not in axioms]
        if missing:
            self.cov['discharged'] = len(thms) - len(missing)
            self.proof_broken = 'no Print Assumptions under: ' + ', '.join(missing)
            return False
        if self.tier == 'thorough' and not os.environ.get('VERIF_NO_COQCHK'):
            # independent re-check of the compiled property file and everything it depends on
            mod = 'CelloVTmp.' + propfile[:-2]
            rc, o, e = sh(['coqchk', '-o', '-silent', '-Q', COQ, 'CelloV', '-Q', out, 'CelloVTmp', mod], timeout=3000)
            txt = o + e
            i = txt.find('CONTEXT SUMMARY')
            summary = re.sub(r'\s+', ' ', txt[i:] if i >= 0 else txt[-600:]).strip()
            self.cov['coqchk'] = {'cmd': 'coqchk -o -silent -Q coq CelloV ' + mod, 'rc': rc, 'summary': summary[:1500]}
            self.cov['checker_cmd'] += ' && coqchk -o -silent -Q coq CelloV ' + mod
            if rc != 0:
                self.cov['discharged'] = 0
                self.proof_broken = 'coqchk rejects %s: %s' % (mod, txt[-800:])
                return False
            tb.append('coqchk (independent checker) accepted %s; its context summary (axioms of every loaded library): %s' % (mod, summary[:600]))
        return not self.proof_broken

    def build_driver(self, group, plain=False):
        """Extract_<group>.v has been compiled by make (it writes ocaml/gen/<group>.ml);
        compile it with ocaml/<group>_driver.ml into a native executable."""
        gen = os.path.join(VERIF, 'ocaml', 'gen')
        ml, mli = os.path.join(gen, group + '.ml'), os.path.join(gen, group + '.mli')
        with open(os.path.join(COQ, '.lock'), 'w') as lk:
            fcntl.flock(lk, fcntl.LOCK_EX)
            ensure_coq_makefile()
            os.makedirs(gen, exist_ok=True)
            if not os.path.exists(ml):
                for f in glob.glob(os.path.join(COQ, 'Extract_%s.vo' % group)):
                    os.remove(f)
            rc, o, e = sh(['make', '-C', COQ, '-j%d' % NCPU, 'Extract_%s.vo' % group], timeout=3000)
            if rc != 0 and getattr(self, 'gen_broken', None) and not getattr(self, 'gen_dependent', False):
                # the executable model needs a parameter that can no longer be read off the source: build it from
                # the last known-good source so that the search for a failing input can run; the tie is broken
                if self.gen_fallback():
                    self.gen_dependent = True
                    used = [g.split()[1] for g in self.gen_broken if len(g.split()) > 1]
                    if not getattr(self, 'proof_broken', None):
                        self.proof_broken = ('the executable model (Extract_%s.v) can no longer be regenerated from the working tree: '
                                             'pattern(s) %s do not match the source any more' % (group, ', '.join(used)))
                        self.cov['discharged'] = 0
                    rc, o, e = sh(['make', '-C', COQ, '-j%d' % NCPU, 'Extract_%s.vo' % group], timeout=3000)
            if rc == 0:
                # private copy taken under the lock (a concurrent check may re-extract)
                d = os.path.join(self.tmp, 'drv_' + group)
                os.makedirs(d, exist_ok=True)
                for f in (ml, mli):
                    shutil.copy(f, d)
            fcntl.flock(lk, fcntl.LOCK_UN)
        if rc != 0:
            raise ModelBuildError('extraction of %s failed: %s' % (group, (o + e)[-1500:]))
        drv = os.path.join(VERIF, 'ocaml', group + '_driver.ml')
        with open(os.path.join(d, group + '_driver.ml'), 'w') as fh:
            if not plain:       # plain: no `open <Group>` / shared prelude (the extracted module shadows `string`)
                fh.write('open %s\n' % group)
                fh.write(open(os.path.join(VERIF, 'ocaml', 'conv.ml.inc')).read())
            fh.write('\n# 1 "%s"\n' % drv)
            fh.write(open(drv).read())
        exe = os.path.join(d, group + '_driver')
        rc, o, e = sh(['ocamlfind', 'ocamlopt', '-inline', '100', '-w', '-a',
                       group + '.mli', group + '.ml', group + '_driver.ml', '-o', exe], cwd=d, timeout=600)
        if rc != 0:
            raise BuildError('driver %s does not build: %s' % (group, (o + e)[-2000:]))
        return exe

    # ---------------------------------------------------------------- running cases
    def run_lines(self, exe, cases, timeout=600, args=(), env=None, shard=200):
        """Feed one case per line on stdin, expect one output line per case.  The cases are
        split into shards that run concurrently (every harness/driver treats its cases
        independently).  A shard that does not finish in time has stalled on the first case
        without an output line: that case is reported as 'HARNESS-STALL' (an observation of
        the implementation, like CRASH/TIMEOUT of a forked case) and the rest of the shard is
        re-run, so the result always has exactly one line per case."""
        from concurrent.futures import ThreadPoolExecutor
        env = dict(env or os.environ)
        env.setdefault('H_TIMEOUT', '5' if self.tier == 'quick' else '10')
        cases = list(cases)
        if not cases:
            return 0, [], ''
        nsh = max(1, min(NCPU, (len(cases) + shard - 1) // shard))
        size = (len(cases) + nsh - 1) // nsh
        chunks = [cases[i:i + size] for i in range(0, len(cases), size)]
        per_case = float(env['H_TIMEOUT'])

        def run_chunk(chunk):
            out, errs, rcs = [], [], 0
            rest = chunk
            stalls = 0
            while rest:
                budget = min(timeout, 30 + per_case * 3 + 0.05 * len(rest))
                rc, o, e = sh([exe] + list(args), input='\n'.join(rest) + '\n', timeout=budget, env=env)
                lines = o.split('\n')
                if lines and lines[-1] == '':
                    lines.pop()
                lines = lines[:len(rest)]
                out += lines
                errs.append(e[-2000:] if e else '')
                if len(lines) >= len(rest):
                    rcs = rc
                    break
                # stalled (or died) on case number len(lines) of `rest`
                out.append('HARNESS-STALL' if rc == -9 else 'HARNESS-DIED(rc=%s)' % rc)
                rest = rest[len(lines) + 1:]
                stalls += 1
                if stalls > 20:          # give up on this shard: mark the remainder
                    out += ['HARNESS-STALL'] * len(rest)
                    break
            return rcs, out, ''.join(errs)

        if len(chunks) == 1:
            rc, lines, err = run_chunk(chunks[0])
            return rc, lines, err
        with ThreadPoolExecutor(max_workers=len(chunks)) as ex:
            res = list(ex.map(run_chunk, chunks))
        lines, errs, rc = [], [], 0
        for r, l, e in res:
            lines += l; errs.append(e); rc = rc or r
        return rc, lines, ''.join(errs)

    def count_case(self, key, nontrivial=True):
        self.cov['evaluations'] += 1
        if nontrivial:
            h = hashlib.blake2b(key.encode(), digest_size=8).digest()
            if h not in self._distinct:
                self._distinct.add(h)
        self.cov['distinct_nontrivial'] = len(self._distinct)

    def sample(self, obj, limit=6):
        if len(self.cov['samples']) < limit:
            self.cov['samples'].append(obj)

    # ---------------------------------------------------------------- verdicts
    def replay_path(self, name):
        d = os.path.join(VERIF, 'replays')
        os.makedirs(d, exist_ok=True)
        return os.path.join(d, '%s_%s.json' % (self.pid, name))

    def violation(self, name, replay, no_failing_input=False):
        """Report a violation unless it matches an open known finding (by signature key)."""
        sig = replay.get('signature')
        for f in self.findings:
            if f.get('status') == 'open' and f['property'] == self.pid and sig and sig == f.get('signature'):
                self.known(f)
                return
        path = self.replay_path(name)
        replay = dict(replay, property=self.pid, seed=self.seed, tier=self.tier,
                      no_failing_input_found=bool(no_failing_input))
        with open(path, 'w') as fh:
            json.dump(replay, fh, indent=1, default=str)
        self.violations.append((path, no_failing_input))

    def known(self, f):
        line = 'KNOWN-FINDING: property=%s %s' % (f['property'], f['what'])
        if line not in self.known_hits:
            self.known_hits.append(line)

    def open_findings(self):
        return [f for f in self.findings if f.get('status') == 'open' and f['property'] == self.pid]

    def finish(self):
        wall = time.time() - self.t0
        if getattr(self, 'proof_broken', None) and not any(not nf for _, nf in self.violations):
            # a broken obligation with no concrete failing input found by the searches
            self.violation('proof_obligation', {
                'kind': 'broken proof obligation',
                'theorem_or_file': 'Properties_%s.v' % self.pid,
                'detail': self.proof_broken,
                'search': 'correspondence and oracle streams of this run found no failing input'},
                no_failing_input=True)
        # schema: coverage.exhaustive is a boolean; checks that describe a bounded exhaustive enumeration in words
        # keep the description under coverage.exhaustive_scope (a bounded search, never the claim)
        ex = self.cov.get('exhaustive')
        if ex is not None and not isinstance(ex, bool):
            self.cov['exhaustive_scope'] = ex
            self.cov['exhaustive'] = False
        for k in ('evaluations', 'distinct_nontrivial', 'obligations', 'discharged', 'traces_validated_against_impl'):
            self.cov[k] = int(self.cov.get(k) or 0)
        if not isinstance(self.cov.get('samples'), list):
            self.cov['samples'] = []
        ev = {
            'property_id': self.pid, 'tier': self.tier, 'seed': int(self.seed), 'level': 'proof',
            'coverage': self.cov, 'assumptions': self.assumptions, 'wall_s': round(wall, 2),
            'violations': len(self.violations),
            'known_findings_reconfirmed': self.known_hits, 'notes': self.notes,
            'generated_params': getattr(self, 'gen_status', []),
            'repo': REPO,
        }
        os.makedirs(os.path.join(VERIF, 'evidence'), exist_ok=True)
        with open(os.path.join(VERIF, 'evidence', self.pid + '.json'), 'w') as fh:
            json.dump(ev, fh, indent=1, default=str)
        for l in self.known_hits:
            print(l)
        # concrete failing inputs first
        self.violations.sort(key=lambda v: v[1])
        for path, nf in self.violations[:1] if self.violations else []:
            print('VIOLATION property=%s replay=%s%s' % (self.pid, path, ' no-failing-input-found' if nf else ''))
        for path, nf in self.violations[1:]:
            print('  also: replay=%s%s' % (path, ' no-failing-input-found' if nf else ''))
        shutil.rmtree(self.tmp, ignore_errors=True)
        print('%s %s: obligations %d/%d, %d cases (%d distinct non-trivial), %d violation(s), %.1fs' % (
            self.pid, self.tier, self.cov['discharged'], self.cov['obligations'],
            self.cov['evaluations'], self.cov['distinct_nontrivial'], len(self.violations), wall))
        return 1 if self.violations else 0


class BuildError(Exception):
    pass


class HarnessBuildError(Exception):
    pass


class ModelBuildError(Exception):
    pass


def load_findings():
    p = os.path.join(VERIF, 'known_findings.json')
    if not os.path.exists(p):
        return []
    return json.load(open(p))['findings']


def ensure_coq_makefile():
    mk = os.path.join(COQ, 'Makefile')
    cp = os.path.join(COQ, '_CoqProject')
    vs = sorted(os.path.basename(f) for f in glob.glob(os.path.join(COQ, '*.v')))
    want = '-Q . CelloV\n' + '\n'.join(vs) + '\n'
    cur = open(cp).read() if os.path.exists(cp) else ''
    if cur != want or not os.path.exists(mk):
        with open(cp, 'w') as fh:
            fh.write(want)
        sh(['coq_makefile', '-f', '_CoqProject', '-o', 'Makefile'], cwd=COQ)


def coq_deps(propfile):
    """.vo files Properties_<id>.v needs (transitively handled by make)."""
    src = open(os.path.join(COQ, propfile)).read()
    deps = []
    for m in re.finditer(r'From\s+CelloV\s+Require\s+(?:Import|Export)\s+([^.]+)\.', src):
        for n in m.group(1).split():
            deps.append(n + '.vo')
    return deps


FORBIDDEN = re.compile(r'\b(Admitted|admit|Axiom|Axioms|Parameter|Parameters|Conjecture|Conjectures|Abort All|bypass_check|Unset\s+Guard\s+Checking|Unset\s+Positivity\s+Checking|Unset\s+Universe\s+Checking|type-in-type|impredicative-set|Admit\s+Obligations)\b')


def strip_comments(s):
    out, depth, i = [], 0, 0
    while i < len(s):
        if s.startswith('(*', i):
            depth += 1; i += 2
        elif s.startswith('*)', i) and depth:
            depth -= 1; i += 2
        else:
            if depth == 0:
                out.append(s[i])
            elif s[i] == '\n':
                out.append('\n')
            i += 1
    return ''.join(out)


def forbidden_gate():
    """Textual gate over every .v file of the development (comments and strings removed)."""
    bad = []
    for f in sorted(glob.glob(os.path.join(COQ, '*.v'))):
        body = strip_comments(open(f).read())
        body = re.sub(r'"[^"\n]*"', '""', body)
        stack = []
        for i, line in enumerate(body.split('\n'), 1):
            if FORBIDDEN.search(line):
                bad.append('%s:%d: %s' % (os.path.basename(f), i, line.strip()[:80]))
            if re.match(r'\s*Section\s', line):
                stack.append('S')
            elif re.match(r'\s*Module\s', line) and ':=' not in line:
                stack.append('M')
            elif re.match(r'\s*End\s', line) and stack:
                stack.pop()
            elif re.match(r'\s*(Variable|Variables|Hypothesis|Hypotheses|Context)\b', line) and 'S' not in stack:
                bad.append('%s:%d: %s outside a Section' % (os.path.basename(f), i, line.strip()[:60]))
    return bad


def shrink_list(items, still_fails, max_iter=400):
    """ddmin-style shrinking of a list of operations."""
    items = list(items)
    n = 2
    it = 0
    while len(items) >= 2 and it < max_iter:
        chunk = max(1, len(items) // n)
        reduced = False
        for i in range(0, len(items), chunk):
            cand = items[:i] + items[i + chunk:]
            it += 1
            if cand and still_fails(cand):
                items = cand
                n = max(n - 1, 2)
                reduced = True
                break
        if not reduced:
            if chunk == 1:
                break
            n = min(len(items), n * 2)
    return items


class Differential:
    """Generic three-way comparison  implementation / extracted model / extracted spec.
    run_impl, run_model, run_spec: list of case strings -> list of transcript lines.
    oracle(case, impl, spec)  -> None | str   : implementation contradicts the SPEC (= the property)
    corr(case, impl, model)   -> None | str   : implementation differs from the MODEL
    nontrivial(case, impl)    -> bool
    split(case) -> (prefix, [tokens]) ; join(prefix, tokens) -> case    (for shrinking)
    classify(case, impl, what) -> signature string of a known finding or None"""

    def __init__(self, ctx, name, run_impl, run_model, run_spec, oracle, corr,
                 nontrivial=lambda c, i: True, split=None, join=None, classify=None):
        self.ctx, self.name = ctx, name
        self.run_impl, self.run_model, self.run_spec = run_impl, run_model, run_spec
        self.oracle, self.corr, self.nontrivial = oracle, corr, nontrivial
        self.split, self.join, self.classify = split, join, classify
        self.oracle_fail, self.corr_fail = [], []
        self.ncases = 0

    def feed(self, cases, label=''):
        ctx = self.ctx
        if not cases:
            return
        il = self.run_impl(cases)
        ml = self.run_model(cases) if self.run_model else [None] * len(cases)
        sl = self.run_spec(cases) if self.run_spec else [None] * len(cases)
        if len(il) != len(cases) or len(ml) != len(cases) or len(sl) != len(cases):
            raise RuntimeError('%s: transcript count mismatch impl=%d model=%d spec=%d cases=%d' % (
                self.name, len(il), len(ml), len(sl), len(cases)))
        for c, i, m, s in zip(cases, il, ml, sl):
            self.ncases += 1
            ctx.count_case(self.name + '\0' + (i or ''), self.nontrivial(c, i))
            if self.run_model:
                ctx.cov['traces_validated_against_impl'] += 1
            if len(ctx.cov['samples']) < 4 and self.nontrivial(c, i) and len(c) < 400:
                ctx.sample({'harness': self.name, 'case': c, 'impl': i[:600], 'model': (m or '')[:600], 'spec': (s or '')[:400]})
            o = self.oracle(c, i, s)
            if o:
                self.oracle_fail.append((c, i, m, s, o))
            k = self.corr(c, i, m) if self.run_model else None
            if k:
                self.corr_fail.append((c, i, m, s, k))

    def _fails_oracle(self, case):
        i = self.run_impl([case]); s = self.run_spec([case]) if self.run_spec else [None]
        return bool(i and s and self.oracle(case, i[0], s[0]))

    def _fails_corr(self, case):
        i = self.run_impl([case]); m = self.run_model([case])
        return bool(i and m and self.corr(case, i[0], m[0]))

    def shrink(self, case, fails):
        if not self.split:
            return case
        pre, toks = self.split(case)
        toks = shrink_list(toks, lambda t: fails(self.join(pre, t)))
        return self.join(pre, toks)

    def report(self, extra_search=None):
        """Turn the collected disagreements into violations (DESIGN section 6)."""
        ctx = self.ctx
        seen_sig = set()
        reported = 0
        for (c, i, m, s, why) in self.oracle_fail:
            sig = self.classify(c, i, why) if self.classify else None
            if sig and any(f.get('status') == 'open' and f['property'] == ctx.pid and f.get('signature') == sig for f in ctx.findings):
                ctx.violation(self.name, {'signature': sig})
                continue
            if reported >= 3:
                continue
            c2 = self.shrink(c, self._fails_oracle)
            i2 = self.run_impl([c2])[0]; s2 = self.run_spec([c2])[0] if self.run_spec else None
            m2 = self.run_model([c2])[0] if self.run_model else None
            ctx.violation('%s_oracle_%d' % (self.name, reported), {
                'kind': 'implementation contradicts the specification (property fails on a concrete input)',
                'harness': self.name, 'case': c2, 'original_case': c, 'why': self.oracle(c2, i2, s2) or why,
                'impl': i2, 'spec': s2, 'model': m2, 'signature': sig})
            reported += 1
        if self.corr_fail and not reported:
            # correspondence broken but the oracle was clean on the regular streams:
            # directed search for a concrete failing input
            if extra_search:
                before = len(self.oracle_fail)
                extra_search(self)
                if len(self.oracle_fail) > before:
                    self.oracle_fail = self.oracle_fail[before:]
                    self.corr_fail = []
                    return self.report(None)
            c, i, m, s, why = self.corr_fail[0]
            c2 = self.shrink(c, self._fails_corr)
            i2 = self.run_impl([c2])[0]; m2 = self.run_model([c2])[0]
            ctx.violation('%s_correspondence' % self.name, {
                'kind': 'correspondence between model and implementation no longer checks',
                'theorem_or_file': 'correspondence %s (model vs implementation)' % self.name,
                'harness': self.name, 'case': c2, 'why': self.corr(c2, i2, m2) or why, 'impl': i2, 'model': m2,
                'disagreeing_cases': len(self.corr_fail),
                'search': 'oracle (spec vs implementation) clean on %d cases incl. directed search' % self.ncases},
                no_failing_input=True)
